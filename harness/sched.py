"""Deterministic thread scheduler: forces an interleaving of marked yield points.

`order` is a sequence of logical thread ids (a behaviour of spec/Threads.tla);
the k-th entry names the thread that passes its next gate.  Exactly one thread
runs between gates (a thread arriving at a gate gives up the token), so the
interleaving of the code segments between gates is exactly the schedule.
"""
import threading


class Sched:
    def __init__(self, order, patience=3.0):
        self.order = list(order)
        self.pos = 0
        self.cv = threading.Condition()
        self.running = None
        self.finished = set()
        self.ids = {}
        self.trace = []
        self.patience = patience
        self.skipped = 0

    def register(self, logical):
        self.ids[threading.get_ident()] = logical

    def me(self):
        return self.ids.get(threading.get_ident())

    def gate(self, name):
        me = self.me()
        if me is None:
            return
        with self.cv:
            if self.running == me:
                self.running = None
                self.cv.notify_all()
            while True:
                while self.pos < len(self.order) and self.order[self.pos] in self.finished:
                    self.pos += 1
                free = self.pos >= len(self.order)
                if self.running is None and (free or self.order[self.pos] == me):
                    if not free:
                        self.pos += 1
                    self.running = me
                    self.trace.append((me, name))
                    return
                if not self.cv.wait(timeout=self.patience):
                    # the scheduled thread is not coming to a gate (it takes a path with
                    # fewer yield points): skip the entry rather than deadlock
                    if self.running is None and self.pos < len(self.order) and self.order[self.pos] != me:
                        self.pos += 1
                        self.skipped += 1

    def finish(self):
        me = self.me()
        with self.cv:
            self.finished.add(me)
            if self.running == me:
                self.running = None
            self.cv.notify_all()


ACTIVE = None


def gate(name):
    s = ACTIVE
    if s is not None:
        s.gate(name)


def install_gates():
    """wrap the yield points of the optimizers (harness-side, idempotent)"""
    import cotengra as ct
    from cotengra import reusable, presets, utils
    from cotengra.hyperoptimizers import hyper
    if getattr(reusable.ReusableOptimizer, "_verif_gated", False):
        return
    reusable.ReusableOptimizer._verif_gated = True

    def wrap(cls, name, before=None, after=None):
        orig = getattr(cls, name)

        def w(self, *a, **kw):
            if before:
                gate(before)
            try:
                return orig(self, *a, **kw)
            finally:
                if after:
                    gate(after)
        w.__name__ = name
        setattr(cls, name, w)

    wrap(reusable.ReusableOptimizer, "search", before="begin")
    wrap(reusable.ReusableOptimizer, "__call__", before="begin")
    wrap(reusable.ReusableOptimizer, "hash_query", before="hash")
    wrap(hyper.ReusableHyperOptimizer, "_get_suboptimizer", before="getsub")
    wrap(ct.ReusableRandomGreedyOptimizer, "_get_suboptimizer", before="getsub")
    wrap(hyper.HyperOptimizer, "search", before="search", after="store")
    wrap(ct.RandomGreedyOptimizer, "search", before="search", after="store")
    wrap(utils.DiskDict, "__setitem__", before="cachewrite")
    wrap(presets.AutoOptimizer, "_get_optimizer_hyper_threadsafe", before="getopt", after="gotopt")
    orig_last = reusable.ReusableOptimizer.last_opt

    def last_opt(self):
        gate("fetch")
        return orig_last.fget(self)
    reusable.ReusableOptimizer.last_opt = property(last_opt)
