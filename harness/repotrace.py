"""pytest plugin: record what cotengra's OWN test-suite does to ContractionTree objects, for trace validation.

Loaded with `-p harness.repotrace` (PYTHONPATH=/verif) when /repo's tests are run by the checks; nothing in /repo is
edited.  The public transformation methods of ContractionTree are wrapped (outermost call only, per thread); for each
call on a complete, small tree the state before and after is projected onto the abstract state of spec/Tree.tla
(harness/observe.snapshot, on copies so that observing never fills caches of the object under test) together with the
statement's own oracle (from-scratch rebuild).  Each call becomes one case of TreeHistoryJudge: [net, init, events=<<e>>];
`contract` calls become init-only cases (the figures of the trees the tests really execute).

Output: pickle of a list of dicts at $VERIF_TRACE_OUT.
"""
import functools
import os
import pickle
import threading

from . import core  # noqa: F401
from . import nets, observe, history

MAXN = int(os.environ.get("VERIF_TRACE_MAXN", "12"))
PER_TEST = int(os.environ.get("VERIF_TRACE_PER_TEST", "10"))
TOTAL = int(os.environ.get("VERIF_TRACE_TOTAL", "4000"))

_tl = threading.local()
CASES = []
STATS = {"calls": 0, "recorded": 0, "skipped_big": 0, "skipped_incomplete": 0, "skipped_cap": 0, "errors": 0}
_current = {"test": None, "n": 0}

# method -> abstract kind of spec/Tree.tla (see TreeHistoryJudge!Structure)
KINDS = {
    "remove_ind": "remove_ind", "restore_ind": "restore_ind", "unslice_rand": "unslice_one", "unslice_all": "unslice_all",
    "subtree_reconfigure": "reconfigure", "subtree_reconfigure_forest": "reconfigure",
    "slice": "slice", "slice_and_reconfigure": "slice_reconfigure", "slice_and_reconfigure_forest": "slice_reconfigure",
    "simulated_anneal": "reconfigure", "parallel_temper": "reconfigure",
    "contract": "query", "contract_stats": None,
}


def net_of(tree):
    labs = []
    for t in tree.inputs:
        for ix in t:
            if ix not in labs:
                labs.append(ix)
    for ix in tree.output:
        if ix not in labs:
            labs.append(ix)
    if any(not isinstance(x, str) for x in labs):
        return None
    ids = {l: k + 1 for k, l in enumerate(labs)}
    inputs = [[ids[ix] for ix in t] for t in tree.inputs]
    output = [ids[ix] for ix in tree.output]
    dims = [int(tree.size_dict[l]) for l in labs]
    return nets.Net(inputs, output, dims, lab={k + 1: l for k, l in enumerate(labs)}, kind="repo-test")


def eligible(tree):
    import cotengra as ct
    if type(tree) is not ct.ContractionTree:
        return False
    if tree.N < 2 or tree.N > MAXN:
        STATS["skipped_big"] += tree.N > MAXN
        return False
    if not tree.is_complete():
        STATS["skipped_incomplete"] += 1
        return False
    return True


def observe_state(ct, net, tree):
    """never recorded itself: the observation calls wrapped methods (remove_ind_ in the rebuild)"""
    old = getattr(_tl, "depth", 0)
    _tl.depth = old + 1
    try:
        obs = tree.copy()
        snap = observe.snapshot(net, obs, orders={"dfs": "dfs"})
        if observe.snapshot_max(snap) >= 2**31:
            return None
        reb = history.rebuild_equal(ct, net, obs)
        return snap, reb
    finally:
        _tl.depth = old


def wrap(name, fn):
    kind0 = KINDS[name]

    @functools.wraps(fn)
    def wrapper(self, *args, **kwargs):
        depth = getattr(_tl, "depth", 0)
        if depth or threading.current_thread() is not threading.main_thread():
            return fn(self, *args, **kwargs)
        STATS["calls"] += 1
        pre = None
        net = None
        try:
            if _current["n"] < PER_TEST and len(CASES) < TOTAL and eligible(self):
                import cotengra as ct
                net = net_of(self)
                if net is not None:
                    pre = observe_state(ct, net, self)
                    if pre is None:
                        STATS["skipped_big"] += 1
            elif len(CASES) >= TOTAL or _current["n"] >= PER_TEST:
                STATS["skipped_cap"] += 1
        except Exception:
            STATS["errors"] += 1
            pre = None
        _tl.depth = 1
        try:
            out = fn(self, *args, **kwargs)
        finally:
            _tl.depth = 0
        if pre is None:
            return out
        try:
            import cotengra as ct
            case = {"test": _current["test"], "op": name, "args": repr((args, kwargs))[:300], "net": net.tla(),
                    "init": pre[0], "init_rebuild": pre[1], "events": [], "eq": net.eq(), "dims": list(net.dims)}
            if name != "contract":
                post_tree = out if isinstance(out, ct.ContractionTree) else self
                if type(post_tree) is ct.ContractionTree and post_tree.is_complete():
                    post = observe_state(ct, net, post_tree)
                    if post is not None:
                        kind, mayslice = kind0, False
                        ix, v = 0, -1
                        inv = net._inv()
                        if name == "remove_ind":
                            ind = args[0] if args else kwargs.get("ind")
                            ix = inv.get(ind, 0)
                            proj = kwargs.get("project", args[1] if len(args) > 1 else None)
                            v = -1 if proj is None else int(proj)
                        elif name == "restore_ind":
                            ind = args[0] if args else kwargs.get("ind")
                            ix = inv.get(ind, 0)
                        elif name in ("simulated_anneal", "parallel_temper"):
                            if kwargs.get("target_size") is not None or kwargs.get("slice_mode") is not None:
                                kind, mayslice = "slice_reconfigure", True
                        elif name == "slice" and kwargs.get("reslice"):
                            kind, mayslice = "slice_reconfigure", True
                        elif name in ("slice_and_reconfigure", "slice_and_reconfigure_forest"):
                            # reslicing inside the loop may drop and re-find indices
                            mayslice = True
                        case["events"].append({"op": name, "kind": kind, "ix": ix, "v": v, "mayslice": mayslice,
                                               "snap": post[0], "rebuild_equal": not post[1], "rebuild_diffs": post[1]})
                        # a call that is not in place must leave the tree it was called on as it was
                        if post_tree is not self:
                            again = observe_state(ct, net, self)
                            case["source_unchanged"] = again is not None and history._snapkey(again[0]) == history._snapkey(pre[0]) \
                                and again[1] == pre[1]
            CASES.append(case)
            _current["n"] += 1
            STATS["recorded"] += 1
        except Exception:
            STATS["errors"] += 1
        return out
    wrapper._verif_wrapped = True
    return wrapper


def install():
    import cotengra as ct
    cls = ct.ContractionTree
    wrapped = {}
    for name in KINDS:
        if KINDS[name] is None:
            continue
        fn = cls.__dict__.get(name)
        if fn is None or getattr(fn, "_verif_wrapped", False):
            continue
        if isinstance(fn, (classmethod, staticmethod, functools.partialmethod)):
            continue
        w = wrap(name, fn)
        wrapped[fn] = w
        setattr(cls, name, w)
    # the in-place variants are partialmethods that captured the original functions
    for attr, val in list(cls.__dict__.items()):
        if isinstance(val, functools.partialmethod) and val.func in wrapped:
            setattr(cls, attr, functools.partialmethod(wrapped[val.func], *val.args, **val.keywords))


HYPER = []


def install_hyper():
    """record every finished HyperOptimizer search of the repository's tests: the scores of all trials, the winner's
    recorded figures and the figures of the tree handed back (C08)"""
    from cotengra.hyperoptimizers import hyper
    cls = hyper.HyperOptimizer
    orig = cls._search
    if getattr(orig, "_verif_wrapped", False):
        return

    @functools.wraps(orig)
    def _search(self, inputs, output, size_dict):
        before = len(self.scores)
        out = orig(self, inputs, output, size_dict)
        try:
            if len(HYPER) < 400 and threading.current_thread() is threading.main_thread():
                b = self.best
                rec = {"test": _current["test"], "cls": type(self).__name__, "N": len(inputs), "max_repeats": int(self.max_repeats),
                       "before": before, "scores": [float(x) for x in self.scores], "best_score": float(b["score"]),
                       "has_tree": "tree" in b, "max_time": repr(getattr(self, "max_time", None)),
                       "compressed": bool(getattr(self, "compressed", False))}
                if "tree" in b:
                    tree = b["tree"]
                    rec["recorded"] = {k: b.get(k) for k in ("flops", "write", "size")}
                    rec["complete"] = bool(tree.is_complete())
                    rec["same_net"] = tuple(map(tuple, tree.inputs)) == tuple(map(tuple, inputs)) and tuple(tree.output) == tuple(output)
                    if not rec["compressed"]:
                        st = tree.contract_stats()
                        rec["tree_stats"] = {k: st[k] for k in ("flops", "write", "size")}
                HYPER.append(rec)
        except Exception:
            STATS["errors"] += 1
        return out
    _search._verif_wrapped = True
    cls._search = _search


def pytest_configure(config):
    install()
    install_hyper()


def pytest_runtest_setup(item):
    _current["test"] = item.nodeid
    _current["n"] = 0


def pytest_sessionfinish(session, exitstatus):
    out = os.environ.get("VERIF_TRACE_OUT")
    if out:
        with open(out, "wb") as f:
            pickle.dump({"cases": CASES, "hyper": HYPER, "stats": STATS, "exitstatus": int(exitstatus)}, f)
