"""Histories of tree transformations: skeletons from TLC (spec/Tree.tla),
execution on the real ContractionTree, recording of traces for
TreeHistoryJudge / ProgramJudge.  Shared by C02 and C04."""

import contextlib
import io
import os
import random

import numpy as np

from . import core, nets, observe, tla

QUERY_KINDS = ["contract", "contract2", "stats", "stats_force", "get_path", "print", "sort", "reset", "copy",
               "totals", "peak"]
CONTRACT_KEYS = [
    {"order": None, "prefer_einsum": False},
    {"order": "dfs", "prefer_einsum": True},
]


# --------------------------------------------------------------------------
# skeletons from the specification
# --------------------------------------------------------------------------
def tla_net(net, nid):
    d = net.tla()
    d["id"] = nid
    return d


def skeletons_from_tlc(tag, netlist, num, depth, seed, exhaustive=False, timeout=600):
    """Run spec/Tree.tla (through a generated MC module) and return histories:
    list of (net_index, init_children, [op records])."""
    d = tla.workdir(tag)
    defs = {f"N_{i}": tla_net(n, i) for i, n in enumerate(netlist)}
    defs["TheNets"] = "={" + ", ".join(f"N_{i}" for i in range(len(netlist))) + "}"
    defs["QK"] = set(QUERY_KINDS)
    body = ""
    tla.write_module(d, "MC_TreeHist", ["Tree"], defs, body)
    cfg = os.path.join(d, "MC_TreeHist.cfg")
    with open(cfg, "w") as f:
        f.write(f"SPECIFICATION Spec\nCONSTANTS\n  Nets <- TheNets\n  MaxHist = {depth}\n  QueryKinds <- QK\n"
                f"INVARIANT EmitHist\nCHECK_DEADLOCK FALSE\n")
    if exhaustive:
        res = tla.run_tlc(os.path.join(d, "MC_TreeHist.tla"), cfg, workers=1, timeout=timeout)
    else:
        res = tla.run_tlc(os.path.join(d, "MC_TreeHist.tla"), cfg, workers=1, timeout=timeout,
                          simulate=f"num={num}", extra=["-depth", str(depth + 2), "-seed", str(seed)])
    if res.error and "Invariant" not in res.error:
        raise tla.MachineryError(f"Tree.tla history generation failed: {res.error}\n{res.out[-2000:]}")
    seen = set()
    out = []
    for v in res.verdicts:
        hist = v[0]
        key = repr(hist)
        if key in seen:
            continue
        seen.add(key)
        init = hist[0]
        out.append((init["net"], init["ch"], hist[1:]))
    return out, res


def children_to_ssa(ch, n):
    """spec children function {frozenset: [l, r]} -> ssa path over 0-based ids"""
    ids = {frozenset([t + 1]): t for t in range(n)}
    todo = sorted(ch.items(), key=lambda kv: len(kv[0]))
    ssa = []
    nxt = n
    for p, (l, r) in todo:
        ssa.append((ids[frozenset(l)], ids[frozenset(r)]))
        ids[frozenset(p)] = nxt
        nxt += 1
    return ssa


# --------------------------------------------------------------------------
# concrete operations
# --------------------------------------------------------------------------
def concretise(rng, net, op, state):
    """abstract op record from the spec -> concrete call description"""
    name = op["op"]
    # the spec's parameters are used when they are enabled in the real state; after a
    # stochastic operation (slice search, annealing with slicing) the real sliced set is
    # whatever the implementation chose, so the parameter is re-drawn from the enabled ones
    sl = state["sliced"]
    if name in ("remove_ind", "project"):
        ix = op["ix"]
        if ix in sl:
            free = [i for i in range(1, net.K + 1) if i not in sl]
            if not free:
                return {"op": "contract_stats", "force": False}
            ix = rng.choice(free)
        if name == "remove_ind":
            return {"op": "remove_ind", "ix": ix, "inplace": rng.random() < 0.7}
        v = op["v"] if op["v"] < net.dim(ix) else rng.randrange(net.dim(ix))
        return {"op": "project", "ix": ix, "v": v, "inplace": rng.random() < 0.7}
    if name == "restore_ind":
        if not sl:
            return {"op": "contract_stats", "force": False}
        if rng.random() < 0.25:
            return {"op": "unslice_rand", "seed": rng.randrange(1000)}
        ix = op["ix"] if op["ix"] in sl else rng.choice(sorted(sl))
        return {"op": "restore_ind", "ix": ix, "inplace": rng.random() < 0.7}
    if name == "unslice_all":
        return {"op": "unslice_all"}
    if name == "reconfigure":
        r = rng.random()
        if r < 0.6:
            return {"op": "subtree_reconfigure", "subtree_size": rng.choice([2, 3, 4, 6]),
                    "subtree_search": rng.choice(["bfs", "dfs", "random"]),
                    "select": rng.choice(["max", "min", "random"]),
                    "weight_what": rng.choice(["flops", "size"]), "maxiter": rng.choice([1, 2, 5]),
                    "seed": rng.randrange(1000), "minimize": rng.choice(["flops", "size", "write", "combo"]),
                    "inplace": rng.random() < 0.7}
        if r < 0.8:
            return {"op": "subtree_reconfigure_forest", "num_trees": 2, "num_restarts": 2, "subtree_maxiter": 3,
                    "subtree_size": rng.choice([2, 3, 4]), "seed": rng.randrange(1000)}
        if r < 0.9:
            return {"op": "slice_and_reconfigure", "div": rng.choice([2, 3, 4]), "forested": False}
        return {"op": "slice_and_reconfigure_forest", "div": rng.choice([2, 4])}
    if name == "rotate":
        r = rng.random()
        tgt = rng.choice([None, None, 2, 4])
        if r < 0.7:
            return {"op": "simulated_anneal", "tsteps": rng.choice([1, 2, 3]), "numiter": rng.choice([1, 3, 6]),
                    "tstart": rng.choice([2, 50]), "seed": rng.randrange(1000), "target_div": tgt,
                    "slice_mode": rng.choice(["basic", "reslice", "drift", 2]),
                    "minimize": rng.choice(["flops", "size", "combo", "write"]), "inplace": rng.random() < 0.7}
        return {"op": "parallel_temper", "tsteps": 2, "numiter": rng.choice([2, 4]), "num_trees": 2,
                "seed": rng.randrange(1000), "target_div": tgt, "slice_mode": rng.choice(["basic", "drift"])}
    if name == "slice":
        return {"op": "slice", "mode": rng.choice(["size", "slices", "overhead"]), "seed": rng.randrange(1000),
                "allow_outer": rng.choice([True, True, False]), "reslice": rng.random() < 0.25,
                "inplace": rng.random() < 0.7}
    if name == "contract":
        return {"op": "contract", "key": 0}
    if name == "contract2":
        return {"op": "contract", "key": 1}
    if name == "stats":
        return {"op": "contract_stats", "force": False}
    if name == "stats_force":
        return {"op": "contract_stats", "force": True}
    if name == "get_path":
        return {"op": "get_path", "order": rng.choice(["none", "dfs", "size", "rand"])}
    if name == "print":
        return {"op": "print_contractions"}
    if name == "sort":
        return {"op": "sort_contraction_indices", "priority": rng.choice(["flops", "size", "root", "leaves"]),
                "oc": rng.random() < 0.6, "cc": rng.random() < 0.6, "reset": rng.random() < 0.5}
    if name == "reset":
        return {"op": "reset_contraction_indices"}
    if name == "copy":
        return {"op": "copy", "continue_on_copy": rng.random() < 0.5}
    if name == "totals":
        return {"op": "totals"}
    if name == "peak":
        return {"op": "peak"}
    raise ValueError(name)


KIND = {
    "remove_ind": "remove_ind", "project": "remove_ind", "restore_ind": "restore_ind",
    "unslice_rand": "unslice_one", "unslice_all": "unslice_all",
    "subtree_reconfigure": "reconfigure", "subtree_reconfigure_forest": "reconfigure",
    "slice_and_reconfigure": "slice_reconfigure", "slice_and_reconfigure_forest": "slice_reconfigure",
    "simulated_anneal": "reconfigure", "parallel_temper": "reconfigure",
    "slice": "slice", "contract": "query", "contract_stats": "query", "get_path": "query",
    "print_contractions": "query", "sort_contraction_indices": "query", "reset_contraction_indices": "query",
    "copy": "query", "totals": "query", "peak": "query",
}


def apply_op(ct, net, tree, cop, arrays, side):
    """perform one concrete operation; returns (tree, kind, mayslice, extra)"""
    if cop.get("progbar"):
        # progress bars are an option of several operations; they write to stderr and must change nothing else
        with contextlib.redirect_stderr(io.StringIO()):
            return _apply_op(ct, net, tree, cop, arrays, side)
    return _apply_op(ct, net, tree, cop, arrays, side)


def _apply_op(ct, net, tree, cop, arrays, side):
    name = cop["op"]
    pb = {"progbar": True} if cop.get("progbar") else {}
    kind = KIND[name]
    mayslice = False
    extra = {}
    L = net.lab
    if name == "remove_ind":
        tree = tree.remove_ind(L[cop["ix"]], inplace=cop["inplace"])
    elif name == "project":
        tree = tree.remove_ind(L[cop["ix"]], project=cop["v"], inplace=cop["inplace"])
    elif name == "restore_ind":
        tree = tree.restore_ind(L[cop["ix"]], inplace=cop["inplace"])
    elif name == "unslice_rand":
        tree = tree.unslice_rand(seed=cop["seed"], inplace=True)
    elif name == "unslice_all":
        tree = tree.unslice_all(inplace=True)
    elif name == "subtree_reconfigure":
        tree = tree.subtree_reconfigure(
            subtree_size=cop["subtree_size"], subtree_search=cop["subtree_search"], select=cop["select"],
            weight_what=cop["weight_what"], maxiter=cop["maxiter"], seed=cop["seed"], minimize=cop["minimize"],
            inplace=cop["inplace"], **pb)
    elif name == "subtree_reconfigure_forest":
        tree = tree.subtree_reconfigure_forest(
            num_trees=cop["num_trees"], num_restarts=cop["num_restarts"], subtree_maxiter=cop["subtree_maxiter"],
            subtree_size=cop["subtree_size"], parallel=False, seed=cop["seed"], inplace=True)
    elif name == "slice_and_reconfigure":
        tgt = max(1, tree.max_size() // cop["div"])
        tree = tree.slice_and_reconfigure(tgt, reconf_opts={"subtree_size": 3, "maxiter": 2}, max_repeats=4,
                                          inplace=True, **pb)
    elif name == "slice_and_reconfigure_forest":
        tgt = max(1, tree.max_size() // cop["div"])
        tree = tree.slice_and_reconfigure_forest(tgt, num_trees=2, max_repeats=4, parallel=False,
                                                 reconf_opts={"subtree_size": 3, "maxiter": 2}, inplace=True)
    elif name == "simulated_anneal":
        kw = {}
        if cop["target_div"]:
            kw = {"target_size": max(1, tree.max_size() // cop["target_div"]), "slice_mode": cop["slice_mode"]}
            kind, mayslice = "slice_reconfigure", True
        tree = tree.simulated_anneal(tfinal=0.05, tstart=cop["tstart"], tsteps=cop["tsteps"], numiter=cop["numiter"],
                                     minimize=cop["minimize"], seed=cop["seed"], inplace=cop["inplace"], **kw)
    elif name == "parallel_temper":
        kw = {}
        if cop["target_div"]:
            kw = {"target_size": max(1, tree.max_size() // cop["target_div"]), "slice_mode": cop["slice_mode"]}
            kind, mayslice = "slice_reconfigure", True
        tree = tree.parallel_temper(tsteps=cop["tsteps"], numiter=cop["numiter"], num_trees=cop["num_trees"],
                                    seed=cop["seed"], parallel=False, inplace=True, **kw)
    elif name == "slice":
        kw = {}
        if cop["mode"] == "size":
            kw["target_size"] = max(1, tree.max_size() // 2)
        elif cop["mode"] == "slices":
            kw["target_slices"] = 2
        else:
            kw["target_overhead"] = 1.5
        if cop["reslice"]:
            kind, mayslice = "slice_reconfigure", True
        tree = tree.slice(seed=cop["seed"], allow_outer=cop["allow_outer"], reslice=cop["reslice"],
                          max_repeats=4, inplace=cop["inplace"], **kw)
    elif name == "contract":
        key = CONTRACT_KEYS[cop["key"]]
        extra["value"] = tree.contract(arrays, **key, **pb)
    elif name == "contract_stats":
        extra["stats"] = dict(tree.contract_stats(force=cop["force"]))
    elif name == "get_path":
        o = observe.order_fns(random.Random(5))[cop["order"]]
        extra["path"] = tree.get_path(order=o)
        extra["ssa_path"] = tree.get_ssa_path()          # default order: emitted again after later transformations
    elif name == "print_contractions":
        with contextlib.redirect_stdout(io.StringIO()):
            tree.print_contractions()
    elif name == "sort_contraction_indices":
        tree.sort_contraction_indices(priority=cop["priority"], make_output_contig=cop["oc"],
                                      make_contracted_contig=cop["cc"], reset=cop.get("reset", True))
    elif name == "reset_contraction_indices":
        tree.reset_contraction_indices()
    elif name == "copy":
        new = tree.copy()
        if cop["continue_on_copy"]:
            side.append(tree)
            tree = new
        else:
            side.append(new)
    elif name == "totals":
        extra["totals"] = (tree.total_flops(), tree.total_write(), tree.max_size())
    elif name == "peak":
        extra["peak"] = tree.peak_size()
    else:
        raise ValueError(name)
    return tree, kind, mayslice, extra


# --------------------------------------------------------------------------
# observation after each step (always on a copy: observing must not heal the
# object under test by filling its caches)
# --------------------------------------------------------------------------
def rebuild_equal(ct, net, tree):
    """the statement's own oracle (C04): a freshly built tree with the same
    contraction order and the same sliced / projected indices reports the same"""
    fresh = ct.ContractionTree.from_path(net.c_inputs(), net.c_output(), net.c_sizes(), path=tree.get_path())
    for ind, si in tree.sliced_inds.items():
        fresh.remove_ind_(ind, project=si.project)
    diffs = []
    if set(fresh.children) != set(tree.children):
        return ["children"]
    if fresh.contract_stats() != tree.contract_stats():
        diffs.append("contract_stats")
    for p in tree.children:
        for nm, f in (("legs", "get_legs"), ("involved", "get_involved"), ("size", "get_size"), ("flops", "get_flops")):
            a, b = getattr(tree, f)(p), getattr(fresh, f)(p)
            if isinstance(a, dict):
                a, b = set(a), set(b)
            if a != b:
                diffs.append(nm)
    for t in range(tree.N):
        lf = frozenset([t])
        if set(tree.get_legs(lf)) != set(fresh.get_legs(lf)):
            diffs.append("leaf-legs")
    if tree.multiplicity != fresh.multiplicity:
        diffs.append("multiplicity")
    if tree.sliced_inputs != fresh.sliced_inputs:
        diffs.append("sliced_inputs")
    if dict(tree.preprocessing) != dict(fresh.preprocessing):
        diffs.append("preprocessing")
    if list(tree.sliced_inds.items()) != list(fresh.sliced_inds.items()):
        diffs.append("sliced_inds")
    return sorted(set(diffs))


def expected_value(net, tree, arrays):
    inv = net._inv()
    fix = {inv[ind]: si.project for ind, si in tree.sliced_inds.items() if si.project is not None}
    return nets.refeval(net, arrays, fix=fix, keep_fixed_output=True), fix


def observe_step(ct, net, tree, arrays, want_value=True):
    """returns dict(snap, rebuild, programs, value_ok, ...) computed on a copy"""
    obs = tree.copy()
    out = {"errors": []}
    try:
        out["snap"] = observe.snapshot(net, obs, orders={"dfs": "dfs"})
    except Exception as e:
        out["errors"].append(("snapshot", core.exc_text(e)))
        out["snap"] = None
    try:
        out["rebuild"] = rebuild_equal(ct, net, obs)
    except Exception as e:
        out["errors"].append(("rebuild", core.exc_text(e)))
        out["rebuild"] = ["raised"]
    # the paths the tree emits must denote the tree as it is NOW (whatever was emitted before a transformation)
    try:
        for nm, pth, ssa_form in (("get_ssa_path()", obs.get_ssa_path(), True), ("get_path()", obs.get_path(), False)):
            ids = {i: frozenset([i]) for i in range(obs.N)} if ssa_form else None
            live = [frozenset([i]) for i in range(obs.N)]
            made = set()
            nxt = obs.N
            for step in pth:
                if ssa_form:
                    u = frozenset().union(*[ids.pop(i) for i in step])
                    ids[nxt] = u
                    nxt += 1
                else:
                    parts = [live.pop(i) for i in sorted(step, reverse=True)]
                    u = frozenset().union(*parts)
                    live.append(u)
                made.add(u)
            if made != {frozenset(p) for p in obs.children}:
                out["errors"].append(("path", f"{nm} denotes another tree than the tree's children"))
    except Exception as e:
        out["errors"].append(("path", core.exc_text(e)))
    out["programs"] = []
    out["value_bad"] = []
    ref, fix = expected_value(net, tree, arrays)
    out["ref"] = ref
    # with exponent stripping: mantissa * 10^exponent must be the same value (gather of stripped slices included)
    if want_value:
        try:
            # check_zero: the canonical integer arrays contain zeros, so a slice / intermediate can vanish exactly
            # first the same call WITHOUT the zero check (its result is meaningless when an intermediate vanishes and is
            # not used): the options of one call must not leak into the next one through the tree's compiled contractors
            with np.errstate(all="ignore"):
                try:
                    obs.contract(arrays, strip_exponent=True)
                except Exception:
                    pass
            m_, e_ = obs.contract(arrays, strip_exponent=True, check_zero=True)
            got_s = np.asarray(m_) * 10.0 ** float(e_)
            nz = np.all(ref != 0)
            if nz and (got_s.shape != ref.shape or not np.allclose(got_s, ref, rtol=1e-9, atol=1e-12)):
                out["value_bad"].append((2, "value with strip_exponent=True"))
        except Exception as e:
            if np.all(ref != 0):
                out["errors"].append(("contract-strip", core.exc_text(e)))
    if want_value:
        # a contractor taken from a COPY of the tree and called with a per-call override: what THIS object computes with its
        # default options afterwards (first key below) must not change
        try:
            twin = obs.copy()
            fn = twin.get_contractor()
            sub = twin.slice_arrays(arrays, 0) if twin.sliced_inds else arrays
            with np.errstate(all="ignore"):
                fn(*sub, strip_exponent=True)
        except Exception:
            pass
    for ki, key in enumerate(CONTRACT_KEYS):
        try:
            steps = observe.compiled_program(obs, **key)
            out["programs"].append((ki, steps))
        except Exception as e:
            out["errors"].append((f"compile{ki}", core.exc_text(e)))
            continue
        if want_value:
            try:
                got = np.asarray(obs.contract(arrays, **key))
                if got.shape != ref.shape or not np.array_equal(got, ref):
                    out["value_bad"].append((ki, "value" if got.shape == ref.shape else f"shape {got.shape} != {ref.shape}"))
                out["got"] = got
            except Exception as e:
                out["errors"].append((f"contract{ki}", core.exc_text(e)))
    return out


def _snapkey(snap):
    if snap is None:
        return None
    return repr((sorted((sorted(n["n"]), sorted(n["legs"]), sorted(n["involved"]), n["size"], n["flops"]) for n in snap["nodes"]),
                 snap["stats"], snap["mult"], sorted(snap["sliced_inputs"]), sorted(snap["pre"])))


def run_history(ct, net, ssa0, abstract_ops, seed, arrays=None):
    """Execute a history on the real object.  Returns a dict with the trace for
    TreeHistoryJudge, program cases for ProgramJudge and harness-side findings."""
    rng = random.Random(seed)
    arrays_are_canonical = arrays is None
    arrays = arrays if arrays is not None else nets.canon_arrays(net)
    res = {"trace": None, "programs": [], "findings": [], "cops": [], "probes": []}
    tree = observe.build_tree(ct, net, ssa0)
    o0 = observe_step(ct, net, tree, arrays)
    if o0["snap"] is None:
        res["findings"].append((0, "init", "raised", o0["errors"]))
        return res
    trace = {"net": net.tla(), "init": o0["snap"], "events": []}
    side = []
    side_state = []
    # "dense" histories: the LIVE object is contracted (and its slice keys read) after every step, so that whatever it
    # caches for executing itself is filled before the next transformation; the other histories leave the live object alone
    dense = rng.random() < 0.5
    res["dense"] = dense

    def live_contract(k, opname):
        try:
            key = CONTRACT_KEYS[k % len(CONTRACT_KEYS)]
            got = np.asarray(tree.contract(arrays, **key))
            ref_, _ = expected_value(net, tree, arrays)
            if got.shape != ref_.shape or not np.array_equal(got, ref_):
                res["findings"].append((k, opname, "value", "tree.contract on the live tree (contracted after every step) returned a wrong value/shape"))
        except Exception as e:
            res["findings"].append((k, opname, "raised:live-contract", core.exc_text(e)))
    if dense:
        live_contract(0, "init")
    for k, aop in enumerate(abstract_ops, 1):
        state = {"sliced": {net.ix_of(i) for i in tree.sliced_inds}}
        cop = concretise(rng, net, aop, state)
        if cop["op"] in ("subtree_reconfigure", "slice_and_reconfigure", "contract") and rng.random() < 0.15:
            cop["progbar"] = True
        res["cops"].append(cop)
        nside = len(side)
        try:
            with core.watchdog(120):
                tree, kind, mayslice, extra = apply_op(ct, net, tree, cop, arrays, side)
        except Exception as e:
            if cop["op"] in ("slice", "slice_and_reconfigure", "slice_and_reconfigure_forest") or \
                    (cop["op"] in ("simulated_anneal", "parallel_temper") and cop.get("target_div")):
                # the slice search may legitimately fail to find indices (outside C02/C04);
                # the tree must nevertheless stay consistent: continue and judge its state
                kind, mayslice, extra = "slice_reconfigure", True, {}
                cop["raised"] = core.exc_text(e)
            else:
                res["findings"].append((k, cop["op"], "raised", core.exc_text(e)))
                break
        o = observe_step(ct, net, tree, arrays)
        if dense and cop["op"] != "copy":
            live_contract(k, cop["op"])
        if len(side) > nside:
            # at a copy both objects are in the same state; remember what was observed now
            side_state.append((k, observe.children_of(side[-1]), observe.sliced_of(net, side[-1]),
                               o["rebuild"], o["value_bad"], [w for w, _ in o["errors"]], _snapkey(o["snap"])))
        if "value" in extra:
            try:
                got = np.asarray(extra["value"])
            except ValueError:
                got = np.empty((0, 0, 0, 0, 0, 0, 0))      # (not an array at all, e.g. a (mantissa, exponent) pair)
            if got.shape != o["ref"].shape or not np.array_equal(got, o["ref"]):
                res["findings"].append((k, cop["op"], "value", "tree.contract on the live tree returned a wrong value/shape"))
        for what, msg in o["errors"]:
            res["findings"].append((k, cop["op"], "raised:" + what, msg))
        for ki, msg in o["value_bad"]:
            res["findings"].append((k, cop["op"], "value", f"contract (option key {ki}) returned wrong {msg}"))
        if o["snap"] is None:
            break
        trace["events"].append({"op": cop["op"], "kind": kind, "ix": cop.get("ix", 0),
                                "v": cop.get("v", -1) if cop["op"] == "project" else -1,
                                "mayslice": mayslice, "snap": o["snap"],
                                "rebuild_equal": not o["rebuild"], "rebuild_diffs": o["rebuild"]})
        for ki, steps in o["programs"]:
            # for a sample of the steps the numeric value (canonical arrays) goes to TLC as well: ProgramJudge then
            # compares it with Einsum(net, ProjFix(sliced)) evaluated by TLC
            val = None
            if ki == 0 and "got" in o and not o["value_bad"] and rng.random() < 0.08 and o["ref"].size <= 48 \
                    and nets.fits32(o["ref"]) and arrays_are_canonical:
                val = o["got"]
            case = observe.program_case(net, tree, steps, value=val, refvalue=o["ref"] if val is not None else None)
            res["programs"].append((k, cop["op"], ki, case))
    # aliasing probes: trees set aside at a copy must still be in the state they had then
    for tr_, (at, ch_, sl_, rb_, vb_, er_, sk_) in zip(side, side_state):
        try:
            o = observe_step(ct, net, tr_, arrays)
            same = (sorted(map(lambda x: sorted(map(sorted, x)), observe.children_of(tr_))) ==
                    sorted(map(lambda x: sorted(map(sorted, x)), ch_))) and observe.sliced_of(net, tr_) == sl_
            if not same:
                res["findings"].append((at, "copy", "aliasing", "tree set aside at copy() changed structure afterwards"))
            elif (o["rebuild"], o["value_bad"], [w for w, _ in o["errors"]], _snapkey(o["snap"])) != (rb_, vb_, er_, sk_):
                res["findings"].append((at, "copy", "aliasing",
                                        f"tree set aside at copy() answers differently after the other object was transformed: "
                                        f"{o['rebuild']} {o['value_bad']} {o['errors']} (at copy time: {rb_} {vb_} {er_})"))
        except Exception as e:
            res["findings"].append((at, "copy", "aliasing", core.exc_text(e)))
    res["trace"] = trace
    return res
