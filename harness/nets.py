"""Own generators for networks, trees, paths and the reference evaluator.

Nothing in this file imports cotengra (DESIGN §4 rule 1): a change to
cotengra's generators or cost helpers can neither hide itself nor raise a
false alarm here.

A network is (inputs, output, dims) over integer index ids 1..K (the spec's
representation).  `labels(K)` maps ids to single characters, deliberately
including characters outside [a-zA-Z] so that cotengra's symbol remapping is
exercised.
"""

import itertools
import random

import numpy as np

# single-character labels: a mix of ascii, non-ascii letters and symbols that
# cotengra itself allocates (get_symbol(i) for i >= 52 starts at chr(192))
_LABEL_POOL = "abcdexyzABXYÀÁÈΩλжø"


class Net:
    __slots__ = ("inputs", "output", "dims", "lab", "kind")

    def __init__(self, inputs, output, dims, lab=None, kind=""):
        self.inputs = tuple(tuple(t) for t in inputs)
        self.output = tuple(output)
        self.dims = tuple(dims)  # dims[ix-1]
        self.lab = lab or labels(len(self.dims))
        self.kind = kind

    @property
    def N(self):
        return len(self.inputs)

    @property
    def K(self):
        return len(self.dims)

    def dim(self, ix):
        return self.dims[ix - 1]

    # --- views for cotengra (labels) --------------------------------------
    def c_inputs(self):
        return tuple(tuple(self.lab[ix] for ix in t) for t in self.inputs)

    def c_output(self):
        return tuple(self.lab[ix] for ix in self.output)

    def c_sizes(self):
        return {self.lab[ix]: self.dims[ix - 1] for ix in range(1, self.K + 1)}

    def ix_of(self, label):
        return self._inv()[label]

    def _inv(self):
        return {v: k for k, v in self.lab.items()}

    def eq(self):
        return ",".join("".join(t) for t in self.c_inputs()) + "->" + "".join(self.c_output())

    def shapes(self):
        return tuple(tuple(self.dims[ix - 1] for ix in t) for t in self.inputs)

    # --- view for the spec -------------------------------------------------
    def tla(self):
        lab = [self.lab[ix] for ix in range(1, self.K + 1)]
        order = sorted(lab)
        return {"inputs": [list(t) for t in self.inputs], "output": list(self.output), "dim": list(self.dims),
                "rank": [order.index(x) + 1 for x in lab]}

    def to_json(self):
        return {"inputs": [list(t) for t in self.inputs], "output": list(self.output),
                "dims": list(self.dims), "eq": self.eq(), "kind": self.kind}

    @staticmethod
    def from_json(d):
        return Net(d["inputs"], d["output"], d["dims"], kind=d.get("kind", ""))

    # --- classification ----------------------------------------------------
    def occ(self, ix):
        return sum(t.count(ix) for t in self.inputs)

    def on(self, ix):
        return [i for i, t in enumerate(self.inputs) if ix in t]

    def has_repeat(self):
        return any(len(set(t)) != len(t) for t in self.inputs)

    def has_dangling(self):
        return any(len(self.on(ix)) == 1 and ix not in self.output for ix in range(1, self.K + 1))

    def features(self):
        f = set()
        for ix in range(1, self.K + 1):
            on = self.on(ix)
            if len(on) >= 3:
                f.add("hyper")
            if len(on) == 1 and ix not in self.output:
                f.add("dangling")
            if ix in self.output and len(on) > 1:
                f.add("out-many")
            if ix in self.output and len(on) == 1:
                f.add("out-one")
            if len(on) == self.N and self.N > 1:
                f.add("on-all")
            if self.dims[ix - 1] == 1:
                f.add("dim1")
        if self.has_repeat():
            f.add("repeat")
        if any(len(t) == 0 for t in self.inputs):
            f.add("scalar")
        if not connected(self):
            f.add("disconnected")
        return f


def labels(K, shift=0):
    pool = _LABEL_POOL
    return {ix: pool[(ix - 1 + shift) % len(pool)] for ix in range(1, K + 1)}


def connected(net):
    if net.N <= 1:
        return True
    seen = {0}
    todo = [0]
    while todo:
        i = todo.pop()
        for j in range(net.N):
            if j not in seen and set(net.inputs[i]) & set(net.inputs[j]):
                seen.add(j)
                todo.append(j)
    return len(seen) == net.N


# --------------------------------------------------------------------------
# network generation
# --------------------------------------------------------------------------
def rand_net(rng, n=None, k=None, maxdim=3, weird=True, max_rank=4, n_out=None, lab_shift=None):
    """Random network with n tensors over <= k indices.  With weird=True all
    index kinds of DESIGN §4.3 occur with decent probability."""
    n = n or rng.randint(2, 6)
    k = k or rng.randint(1, 7)
    dims = [rng.choice([1, 2, 2, 3, 3, maxdim]) if weird else rng.randint(2, maxdim) for _ in range(k)]
    inputs = [[] for _ in range(n)]
    for ix in range(1, k + 1):
        r = rng.random()
        if weird and r < 0.12:
            cnt = 1  # dangling or output-on-one
        elif weird and r < 0.30:
            cnt = min(n, rng.randint(3, max(3, n)))  # hyper
        else:
            cnt = min(n, 2)
        for t in rng.sample(range(n), cnt):
            inputs[t].append(ix)
        if weird and rng.random() < 0.10:
            # repeat inside a tensor (trace / diagonal)
            t = rng.choice([t for t in range(n) if ix in inputs[t]])
            inputs[t].append(ix)
    for t in range(n):
        rng.shuffle(inputs[t])
        if len(inputs[t]) > max_rank:
            # keep rank bounded: drop extra (may orphan an index; repaired below)
            inputs[t] = inputs[t][:max_rank]
    # drop unused indices, renumber
    used = sorted({ix for t in inputs for ix in t})
    ren = {ix: i + 1 for i, ix in enumerate(used)}
    inputs = [[ren[ix] for ix in t] for t in inputs]
    dims = [dims[ix - 1] for ix in used]
    k = len(dims)
    cand = list(range(1, k + 1))
    if n_out is None:
        n_out = rng.choice([0, 0, 1, 1, 2, 2, 3])
    out = rng.sample(cand, min(n_out, len(cand)))
    lab = labels(k, rng.randrange(len(_LABEL_POOL)) if lab_shift is None else lab_shift)
    return Net(inputs, out, dims, lab=lab, kind="rand")


def ordinary_net(rng, n=None, maxdim=3, n_out=None, hyper=True, connected_only=True, max_rank=4):
    """'Ordinary' network: no repeated index inside a tensor, no index confined
    to a single tensor unless it is an output index."""
    for _ in range(1000):
        n_ = n or rng.randint(2, 6)
        k = rng.randint(max(1, n_ - 1), n_ + 3)
        inputs = [[] for _ in range(n_)]
        # spanning structure for connectivity
        ix = 0
        for t in range(1, n_):
            ix += 1
            inputs[t].append(ix)
            inputs[rng.randrange(t)].append(ix)
        while ix < k:
            ix += 1
            cnt = rng.randint(3, max(3, n_)) if (hyper and rng.random() < 0.25) else 2
            cnt = min(cnt, n_)
            if cnt < 2:
                continue
            for t in rng.sample(range(n_), cnt):
                inputs[t].append(ix)
        k = ix
        out = []
        no = rng.choice([0, 1, 2]) if n_out is None else n_out
        for _o in range(no):
            ix += 1
            for t in rng.sample(range(n_), rng.choice([1, 1, 2]) if n_ > 1 else 1):
                inputs[t].append(ix)
            out.append(ix)
        if any(len(t) > max_rank for t in inputs):
            continue
        for t in inputs:
            rng.shuffle(t)
        dims = [rng.randint(2, maxdim) for _ in range(ix)]
        rng.shuffle(out)
        net = Net(inputs, out, dims, kind="ordinary")
        if connected_only and not connected(net):
            continue
        return net
    raise RuntimeError("could not generate ordinary net")


def fixed_pool():
    """Hand-written networks covering each index kind at least once."""
    P = []

    def add(inputs, output, dims, kind):
        P.append(Net(inputs, output, dims, kind=kind))

    add([[1, 2], [2, 3]], [1, 3], [2, 3, 2], "matmul")
    add([[1, 2], [2, 3], [3, 1]], [], [2, 3, 2], "ring")
    add([[1, 2], [1, 3], [1, 4]], [2, 3, 4], [2, 2, 3, 2], "hyper")
    add([[1, 2], [1, 3], [1, 4]], [1, 4], [3, 2, 2, 2], "hyper-out")
    add([[1, 1, 2], [2, 3]], [3], [2, 3, 2], "trace")
    add([[1, 1, 2], [2, 3, 3], [1, 4]], [4, 1], [2, 3, 2, 3], "diag-out")
    add([[1, 2], [3], [2, 4]], [4], [2, 3, 2, 2], "dangling+disconnected")
    add([[], [1, 2], [2, 1], []], [], [2, 3], "scalars")
    add([[1], [2], [3]], [3, 1, 2], [2, 3, 2], "outer")
    add([[1, 2], [3, 4]], [4, 1], [2, 2, 3, 2], "disconnected")
    add([[1, 2, 3], [1, 2, 3]], [2], [2, 3, 2], "hadamard-ish")
    add([[1, 2], [1, 2], [1, 2]], [1, 2], [2, 3], "all-batch")
    add([[1, 2], [2, 3], [3, 4], [4, 5]], [1, 5], [1, 2, 1, 3, 2], "dim1-chain")
    add([[1, 2, 3], [3, 4, 5], [5, 6, 1], [2, 4, 6]], [], [2, 2, 2, 2, 2, 2], "tetra")
    add([[1, 2], [2, 3], [3, 4], [4, 1], [1, 3]], [2], [2, 2, 3, 2], "hyper-ring")
    add([[1, 5], [1, 2, 2], [5, 3], [3, 4], [4]], [1], [2, 2, 3, 2, 2], "mixed")
    return P


def net_pool(rng, count, nmin=2, nmax=6, weird=True, maxdim=3):
    pool = list(fixed_pool())
    pool = [p for p in pool if nmin <= p.N <= nmax]
    while len(pool) < count:
        pool.append(rand_net(rng, n=rng.randint(nmin, nmax), maxdim=maxdim, weird=weird))
    return pool[:count] if count < len(pool) else pool


# --------------------------------------------------------------------------
# trees (as ssa paths over 0-based tensor ids) -- own enumeration
# --------------------------------------------------------------------------
def all_trees(n):
    """All unordered binary trees over leaves 0..n-1 as nested tuples."""
    def build(items):
        if len(items) == 1:
            return [items[0]]
        out = []
        first, rest = items[0], items[1:]
        # split: first goes left; choose subset of rest to join it
        for r in range(0, len(rest)):
            for comb in itertools.combinations(rest, r):
                left = (first,) + comb
                right = tuple(x for x in rest if x not in comb)
                for lt in build(left):
                    for rt in build(right):
                        out.append((lt, rt))
        return out
    return build(tuple(range(n)))


def rand_tree(rng, n):
    items = list(range(n))
    while len(items) > 1:
        i, j = rng.sample(range(len(items)), 2)
        a, b = items[i], items[j]
        for x in sorted((i, j), reverse=True):
            items.pop(x)
        items.append((a, b))
    return items[0]


def tree_leaves(t):
    if isinstance(t, int):
        return frozenset([t])
    return tree_leaves(t[0]) | tree_leaves(t[1])


def tree_to_ssa(t, n, rng=None):
    """Post-order (optionally randomly interleaved) ssa path of a nested tree."""
    path = []
    ids = {}
    nxt = [n]

    def rec(x):
        if isinstance(x, int):
            return x
        kids = [x[0], x[1]]
        if rng is not None and rng.random() < 0.5:
            kids.reverse()
        a = rec(kids[0])
        b = rec(kids[1])
        path.append((a, b))
        nxt[0] += 1
        return nxt[0] - 1

    rec(t)
    return path


def tree_nodes(t):
    """internal nodes as (parent_set, left_set, right_set) with 1-based leaf ids"""
    out = []

    def rec(x):
        if isinstance(x, int):
            return frozenset([x + 1])
        l = rec(x[0])
        r = rec(x[1])
        out.append((l | r, l, r))
        return l | r

    rec(t)
    return out


def ssa_to_linear(ssa, n):
    """own conversion of a pairwise ssa path into a linear path (positions in the shrinking list, new tensor appended)"""
    live = list(range(n))
    out = []
    nxt = n
    for step in ssa:
        pos = sorted(live.index(i) for i in step)
        out.append(tuple(pos))
        for q in reversed(pos):
            live.pop(q)
        live.append(nxt)
        nxt += 1
    return out


def ssa_to_children(ssa, n):
    """children map {parent: (a, b)} (1-based leaf sets) of an ssa path; steps
    may contract >= 2 ids only pairwise here"""
    nodes = {i: frozenset([i + 1]) for i in range(n)}
    ch = {}
    nxt = n
    for a, b in ssa:
        p = nodes[a] | nodes[b]
        ch[p] = (nodes[a], nodes[b])
        nodes[nxt] = p
        nxt += 1
    return ch


# --------------------------------------------------------------------------
# canonical integer arrays and the reference evaluator
# --------------------------------------------------------------------------
def entry(t, coords):
    """entry of canonical tensor t (1-based) at 0-based coords; same formula as
    Network!Entry"""
    return ((3 * t + sum((k + 1) * c for k, c in enumerate(coords, 1))) % 7) - 3


def canon_array(t, shape, dtype=np.float64):
    a = np.empty(shape, dtype=dtype)
    for c in np.ndindex(*shape):
        a[c] = entry(t, c)
    return a


def canon_arrays(net, dtype=np.float64):
    return [canon_array(t + 1, shp, dtype) for t, shp in enumerate(net.shapes())]


def rand_int_arrays(net, rng, lo=-3, hi=3):
    return [np.array([rng.randint(lo, hi) for _ in range(int(np.prod(s)))], dtype=np.float64).reshape(s)
            for s in net.shapes()]


def refeval(net, arrays, fix=None, keep_fixed_output=False):
    """Dense evaluation: sum over all index assignments of the product of
    entries.  Literal transliteration of Network!Einsum: one broadcast axis per
    index, no call to any einsum/tensordot.  `fix` maps index id -> value."""
    fix = fix or {}
    K = net.K
    dims = net.dims
    acc = None
    for t, term in enumerate(net.inputs):
        a = np.asarray(arrays[t])
        # gather: result axis per index id (1..K); use advanced indexing with ogrid
        idx = []
        for ix in term:
            if ix in fix:
                g = np.array(fix[ix]).reshape((1,) * K)
            else:
                shp = [1] * K
                shp[ix - 1] = dims[ix - 1]
                g = np.arange(dims[ix - 1]).reshape(shp)
            idx.append(g)
        if idx:
            v = a[tuple(idx)]
        else:
            v = a.reshape((1,) * K)
        acc = v if acc is None else acc * v
    used = {ix for t in net.inputs for ix in t}
    full = [1 if ((ix + 1) in fix or (ix + 1) not in used) else dims[ix] for ix in range(K)]
    acc = np.broadcast_to(acc, full) if acc is not None else np.ones(full)
    out_ix = [ix for ix in net.output if (keep_fixed_output or ix not in fix)]
    sum_axes = tuple(ix - 1 for ix in range(1, K + 1) if ix not in net.output)
    # indices never on any tensor cannot occur; broadcasting made them size dims -> guard
    res = acc.sum(axis=sum_axes, keepdims=True) if sum_axes else acc
    # move output axes into order, drop the rest
    perm = [ix - 1 for ix in net.output] + [i for i in range(K) if (i + 1) not in net.output]
    res = np.transpose(res, perm)
    res = res.reshape([(1 if ix in fix else dims[ix - 1]) for ix in net.output])
    if not keep_fixed_output and fix:
        keep = tuple(0 if ix in fix else slice(None) for ix in net.output)
        res = res[keep]
    return res


def fits32(x):
    return bool(np.all(np.abs(x) < 2**31 - 1))
