"""Design-level model checking: run a committed MC_* instance of /verif/spec."""
import os
import shutil

from . import tla


def run_mc(name, cfg=None, workers=8, timeout=1800, coverage=False, module=None):
    """name: cfg basename (MC_X[.cfg]); module defaults to the cfg name up to the
    first suffix that is not a module (MC_Tree_A.cfg -> MC_Tree.tla)."""
    cfgf = (cfg or name) + ".cfg"
    module = module or name
    if not os.path.exists(os.path.join(tla.SPEC, module + ".tla")):
        module = "_".join(name.split("_")[:-1])
    d = tla.workdir("mc_" + name)
    for f in os.listdir(tla.SPEC):
        if f.endswith(".tla"):
            shutil.copy(os.path.join(tla.SPEC, f), os.path.join(d, f))
    shutil.copy(os.path.join(tla.SPEC, cfgf), os.path.join(d, cfgf))
    res = tla.run_tlc(os.path.join(d, module + ".tla"), os.path.join(d, cfgf), workers=workers,
                      timeout=timeout, coverage=coverage)
    if not res.ok:
        raise tla.MachineryError(f"design-level model checking of {name} failed: {res.error or res.invariant_violated}\n"
                                 + res.out[-2500:])
    return res
