"""Design-level model checking: run a committed MC_* instance of /verif/spec."""
import os
import shutil

from . import tla


import re


def vacuous_actions(out):
    """names of specification actions TLC never took (needs -coverage 1)"""
    bad = []
    for m in re.finditer(r"^<(\w+) line \d+, col \d+ to line \d+, col \d+ of module (\w+)>: (\d+):(\d+)", out, flags=re.M):
        if m.group(1) != "Init" and int(m.group(4)) == 0:
            bad.append(f"{m.group(2)}!{m.group(1)}")
    return sorted(set(bad))


COVERAGE = False     # set by main for the thorough tier: every MC instance is run with -coverage 1 and must take every action


def run_mc(name, cfg=None, workers=8, timeout=1800, coverage=None, module=None, allow_unused=()):
    """name: cfg basename (MC_X[.cfg]); module defaults to the cfg name up to the
    first suffix that is not a module (MC_Tree_A.cfg -> MC_Tree.tla)."""
    if coverage is None:
        coverage = COVERAGE and "_gen" not in name and "_emit" not in name
    cfgf = (cfg or name) + ".cfg"
    module = module or name
    if not os.path.exists(os.path.join(tla.SPEC, module + ".tla")):
        module = "_".join(name.split("_")[:-1])
    d = tla.workdir("mc_" + name)
    for f in os.listdir(tla.SPEC):
        if f.endswith(".tla"):
            shutil.copy(os.path.join(tla.SPEC, f), os.path.join(d, f))
    shutil.copy(os.path.join(tla.SPEC, cfgf), os.path.join(d, cfgf))
    res = tla.run_tlc(os.path.join(d, module + ".tla"), os.path.join(d, cfgf), workers=workers,
                      timeout=timeout, coverage=coverage)
    if coverage and res.ok:
        vac = [a for a in vacuous_actions(res.out) if a.split("!")[1] not in allow_unused]
        if vac:
            raise tla.MachineryError(f"vacuity: actions never taken in {name}: {vac}")
    if not res.ok:
        raise tla.MachineryError(f"design-level model checking of {name} failed: {res.error or res.invariant_violated}\n"
                                 + res.out[-2500:])
    return res
