"""Check runner plumbing: evidence, violations, known findings, watchdog."""

import contextlib
import json
import os
import signal
import sys
import time
import traceback

VERIF = os.path.dirname(os.path.dirname(os.path.abspath(__file__)))
REPO = os.environ.get("VERIF_REPO", "/repo")

if REPO not in sys.path:
    sys.path.insert(0, REPO)


class Hang(BaseException):
    """not an Exception: the code under test must not be able to swallow the watchdog"""


@contextlib.contextmanager
def watchdog(seconds=60):
    """A cotengra call that does not return is a verdict (DESIGN §4 rule 8)."""
    def handler(signum, frame):
        raise Hang(f"call did not return within {seconds}s")
    old = signal.signal(signal.SIGALRM, handler)
    # re-arm every second after the deadline: a handler whose exception was swallowed by
    # a broad `except` in the code under test fires again
    signal.setitimer(signal.ITIMER_REAL, seconds, 1.0)
    if os.environ.get("VERIF_DEBUG_HANG"):
        import faulthandler
        faulthandler.dump_traceback_later(seconds + 10, exit=False)
    try:
        yield
    finally:
        signal.setitimer(signal.ITIMER_REAL, 0)
        signal.signal(signal.SIGALRM, old)
        if os.environ.get("VERIF_DEBUG_HANG"):
            import faulthandler
            faulthandler.cancel_dump_traceback_later()


def load_known():
    p = os.path.join(VERIF, "known_findings.json")
    if not os.path.exists(p):
        return {"findings": [], "fixed": []}
    with open(p) as f:
        return json.load(f)


class Run:
    """One run of one check.  Collects coverage counters, samples, violations."""

    def __init__(self, pid, tier, level="model_checking"):
        self.pid = pid
        self.tier = tier
        self.level = level
        self.seed = int(os.environ.get("VERIF_SEED", "0"))
        self.t0 = time.time()
        self.cov = {"evaluations": 0, "distinct_nontrivial": 0, "states": 0, "transitions": 0,
                    "traces_validated_against_impl": 0, "samples": [], "rule": ""}
        self.distinct = set()
        self.violations = []     # (key, description, replay dict)
        self.known_hits = {}
        self.assumptions = []
        self.extra = {}
        self.known = [k for k in load_known().get("findings", []) if k["property"] == pid]

    # -- coverage -----------------------------------------------------------
    def count(self, n=1):
        self.cov["evaluations"] += n

    def nontrivial(self, key):
        self.distinct.add(key)

    def sample(self, s, cap=6):
        if len(self.cov["samples"]) < cap:
            self.cov["samples"].append(s)

    def tlc(self, res, traces=0):
        self.cov["states"] += res.distinct
        self.cov["transitions"] += res.states
        self.cov["traces_validated_against_impl"] += traces

    # -- violations ---------------------------------------------------------
    def violation(self, what, replay, tags=()):
        """`tags` are structural facts about the failing case; a known finding
        matches iff all of its `match` tags are present (DESIGN §4 rule 7)."""
        tags = set(tags)
        for k in self.known:
            # `match`: all tags present; `match_any` (optional): additionally one of the listed tag sets present
            if set(k["match"]) <= tags and (not k.get("match_any") or any(set(alt) <= tags for alt in k["match_any"])):
                self.known_hits.setdefault(k["key"], [0, k["what"]])[0] += 1
                return False
        self.violations.append((what, replay, sorted(tags)))
        return True

    # -- finish -------------------------------------------------------------
    def finish(self):
        self.cov["distinct_nontrivial"] = len(self.distinct)
        wall = time.time() - self.t0
        ev = {
            "property_id": self.pid, "tier": self.tier, "seed": self.seed, "level": self.level,
            "coverage": dict(self.cov, **self.extra), "assumptions": self.assumptions,
            "wall_s": round(wall, 2), "violations": len(self.violations),
        }
        if self.known_hits:
            ev["coverage"]["known_findings_hit"] = {k: v[0] for k, v in self.known_hits.items()}
        evdir = os.environ.get("VERIF_EVIDENCE_DIR") or os.path.join(VERIF, "evidence")   # seeded runs write elsewhere
        os.makedirs(evdir, exist_ok=True)
        with open(os.path.join(evdir, f"{self.pid}.json"), "w") as f:
            json.dump(ev, f, indent=1, default=_jd)
        for key, (n, what) in self.known_hits.items():
            print(f"KNOWN-FINDING: property={self.pid} {key}: {what} ({n} cases this run)")
        os.makedirs(os.path.join(VERIF, "work"), exist_ok=True)
        with open(os.path.join(VERIF, "work", f"{self.pid}_{self.tier}_violations.json"), "w") as f:
            json.dump([{"what": w, "tags": t} for w, _, t in self.violations], f, indent=1, default=_jd)
        if self.violations:
            rd = os.path.join(VERIF, "replays", self.pid)
            os.makedirs(rd, exist_ok=True)
            seen = 0
            for i, (what, replay, tags) in enumerate(self.violations[:20]):
                p = os.path.join(rd, f"{self.tier}_{self.seed}_{i}.json")
                with open(p, "w") as f:
                    json.dump({"property": self.pid, "what": what, "tags": tags, "replay": replay},
                              f, indent=1, default=_jd)
                print(f"VIOLATION property={self.pid} replay={p}")
                print(f"  {what}")
                seen += 1
            if len(self.violations) > seen:
                print(f"  ... and {len(self.violations) - seen} more violations")
            return 1
        print(f"OK property={self.pid} tier={self.tier} evaluations={self.cov['evaluations']} "
              f"distinct_nontrivial={self.cov['distinct_nontrivial']} tlc_states={self.cov['states']} "
              f"traces={self.cov['traces_validated_against_impl']} wall={wall:.1f}s")
        return 0


def _jd(o):
    if isinstance(o, (set, frozenset)):
        return sorted(o, key=repr)
    if hasattr(o, "tolist"):
        return o.tolist()
    if hasattr(o, "to_json"):
        return o.to_json()
    return repr(o)


def exc_text(e):
    return f"{type(e).__name__}: {e}"[:300]


def tb_tail(n=3):
    return "".join(traceback.format_exc().splitlines(True)[-n:])
