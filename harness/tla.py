"""Talking to TLC: literal generation, invocation, output parsing.

TLC is the judge.  The harness never decides a structural verdict itself: it
ships recorded cases / traces as a generated constant module, runs one of the
judge specifications in /verif/spec on it and parses one verdict tuple per case
from TLC's PrintT output.
"""

import os
import re
import shutil
import subprocess
import tempfile
import time

VERIF = os.path.dirname(os.path.dirname(os.path.abspath(__file__)))
SPEC = os.path.join(VERIF, "spec")
JAR = "/opt/veriftools/tla/tla2tools.jar:/opt/veriftools/tla/CommunityModules-deps.jar"


class MachineryError(Exception):
    """TLC crashed / produced unparsable output: exit code 2, never a VIOLATION."""


# --------------------------------------------------------------------------
# Python value -> TLA+ literal
# --------------------------------------------------------------------------
def lit(x):
    if isinstance(x, bool):
        return "TRUE" if x else "FALSE"
    if isinstance(x, int):
        if abs(x) >= 2**31:
            raise MachineryError(f"integer {x} does not fit TLC's 32-bit ints")
        return str(x) if x >= 0 else f"(-{-x})"
    if isinstance(x, str):
        assert '"' not in x and "\\" not in x, x
        return '"' + x + '"'
    if isinstance(x, (list, tuple)):
        return "<<" + ", ".join(lit(v) for v in x) + ">>"
    if isinstance(x, (set, frozenset)):
        return "{" + ", ".join(lit(v) for v in sorted(x, key=_sortkey)) + "}"
    if isinstance(x, dict):
        if not x:
            return "<<>>"
        if all(isinstance(k, str) for k in x):
            return "[" + ", ".join(f"{k} |-> {lit(v)}" for k, v in x.items()) + "]"
        # function with non-string domain
        return "(" + " @@ ".join(f"({lit(k)} :> {lit(v)})" for k, v in x.items()) + ")"
    if x is None:
        return '"none"'
    raise TypeError(type(x))


def _sortkey(v):
    return (str(type(v)), repr(v))


def big(x):
    """Integers that may exceed 32 bits are shipped as base-10000 limb sequences
    (least significant first); the specs compare them with LimbEq / build them
    with LimbMul (module Limbs)."""
    assert x >= 0
    out = []
    while True:
        out.append(x % 10000)
        x //= 10000
        if x == 0:
            break
    return out


# --------------------------------------------------------------------------
# running TLC
# --------------------------------------------------------------------------
_VERDICT = re.compile(r'^<<\s*"V",')


def _split_top(s):
    """split 'a, <<b, c>>, {d}' at top-level commas"""
    out, depth, cur, instr = [], 0, [], False
    i = 0
    while i < len(s):
        ch = s[i]
        if instr:
            cur.append(ch)
            if ch == '"':
                instr = False
        elif ch == '"':
            instr = True
            cur.append(ch)
        elif s.startswith("<<", i):
            depth += 1
            cur.append("<<")
            i += 1
        elif s.startswith(">>", i):
            depth -= 1
            cur.append(">>")
            i += 1
        elif ch in "{[(":
            depth += 1
            cur.append(ch)
        elif ch in "}])":
            depth -= 1
            cur.append(ch)
        elif ch == "," and depth == 0:
            out.append("".join(cur).strip())
            cur = []
        else:
            cur.append(ch)
        i += 1
    if cur:
        out.append("".join(cur).strip())
    return out


def parse_value(s):
    """Parse the subset of TLC value syntax the judges print."""
    s = s.strip()
    if s.startswith("<<") and s.endswith(">>"):
        inner = s[2:-2].strip()
        return [parse_value(p) for p in _split_top(inner)] if inner else []
    if s.startswith("{") and s.endswith("}"):
        inner = s[1:-1].strip()
        return set(_freeze(parse_value(p)) for p in _split_top(inner)) if inner else set()
    if s.startswith('"') and s.endswith('"'):
        return s[1:-1]
    if s in ("TRUE", "FALSE"):
        return s == "TRUE"
    if re.fullmatch(r"-?\d+", s):
        return int(s)
    m = re.fullmatch(r"(-?\d+)\.\.(-?\d+)", s)
    if m:
        return set(range(int(m.group(1)), int(m.group(2)) + 1))
    if s.startswith("[") and s.endswith("]"):
        d = {}
        for p in _split_top(s[1:-1]):
            k, v = p.split("|->", 1)
            d[k.strip()] = parse_value(v)
        return d
    if s.startswith("(") and s.endswith(")"):
        # function printed as (a :> b @@ c :> d)
        d = {}
        for p in re.split(r"\s@@\s", s[1:-1]):
            k, v = p.split(":>", 1)
            d[_freeze(parse_value(k))] = parse_value(v)
        return d
    return s


def _freeze(v):
    if isinstance(v, list):
        return tuple(_freeze(x) for x in v)
    if isinstance(v, set):
        return frozenset(_freeze(x) for x in v)
    if isinstance(v, dict):
        return tuple(sorted((k, _freeze(x)) for k, x in v.items()))
    return v


class TLCResult:
    def __init__(self, out, rc, wall):
        self.out = out
        self.rc = rc
        self.wall = wall
        self.verdicts = []
        self.states = self.distinct = 0
        self.error = None
        self.invariant_violated = None
        buf = None
        for line in out.splitlines():
            if _VERDICT.match(line):
                buf = line
            elif buf is not None:
                buf += " " + line.strip()
            if buf is not None and _balanced(buf):
                try:
                    self.verdicts.append(parse_value(re.sub(r"\s+", " ", buf))[1:])
                except Exception as e:  # pragma: no cover
                    raise MachineryError(f"unparsable verdict line {buf!r}: {e}")
                buf = None
            m = re.match(r"(\d+) states generated, (\d+) distinct states found", line)
            if m:
                self.states, self.distinct = int(m.group(1)), int(m.group(2))
            m = re.match(r"Error: Invariant (\S+) is violated", line)
            if m:
                self.invariant_violated = m.group(1)
            if line.startswith("Error:") and self.error is None:
                self.error = line

    @property
    def ok(self):
        return self.error is None and "Model checking completed. No error" in self.out


def _balanced(s):
    return s.count("<<") == s.count(">>") and s.count("{") == s.count("}") and s.count("[") == s.count("]")


def workdir(tag):
    d = os.path.join(VERIF, "work", tag)
    os.makedirs(d, exist_ok=True)
    return d


def run_tlc(module_path, cfg_path=None, workers=1, timeout=1800, simulate=None,
            extra=(), env_extra=None, coverage=False, dfid=None):
    """Run TLC on `module_path` (cwd = its directory; /verif/spec on the library path)."""
    d = os.path.dirname(os.path.abspath(module_path))
    meta = tempfile.mkdtemp(prefix="tlcmeta_", dir=d)
    cmd = [
        "java", "-XX:+UseParallelGC", f"-XX:ParallelGCThreads={max(2, min(workers, 8))}", "-Xss64m", f"-DTLA-Library={SPEC}",
        "-cp", JAR, "tlc2.TLC",
        "-workers", str(workers), "-metadir", meta, "-noGenerateSpecTE",
    ]
    if cfg_path:
        cmd += ["-config", cfg_path]
    if simulate:
        cmd += ["-simulate", simulate]
    if coverage:
        cmd += ["-coverage", "1"]
    cmd += list(extra)
    cmd.append(os.path.basename(module_path))
    env = dict(os.environ)
    if env_extra:
        env.update(env_extra)
    t0 = time.time()
    try:
        p = subprocess.run(cmd, cwd=d, capture_output=True, text=True, timeout=timeout, env=env)
    except subprocess.TimeoutExpired:
        shutil.rmtree(meta, ignore_errors=True)
        raise MachineryError(f"TLC timed out after {timeout}s on {module_path}")
    finally:
        shutil.rmtree(meta, ignore_errors=True)
    return TLCResult(p.stdout + p.stderr, p.returncode, time.time() - t0)


def write_module(dirpath, name, extends, defs, body=""):
    """Write a generated module; defs = {NAME: python value or raw TLA string (prefixed '=')}."""
    lines = [f"---- MODULE {name} ----", f"EXTENDS {', '.join(extends)}"]
    for k, v in defs.items():
        if isinstance(v, str) and v.startswith("="):
            lines.append(f"{k} == {v[1:]}")
        else:
            lines.append(f"{k} == {lit(v)}")
    lines.append(body)
    lines.append("====")
    path = os.path.join(dirpath, name + ".tla")
    with open(path, "w") as f:
        f.write("\n".join(lines) + "\n")
    return path


def judge(tag, judge_module, data_defs, cfg_text=None, workers=1, timeout=1800):
    """Generate Data module + root module that EXTENDS the judge spec, run TLC.

    The judge specs follow one convention: they EXTEND a module named `Data`
    providing `Cases` (a sequence) and walk it with a variable, printing one
    <<"V", caseindex, clause, ...>> tuple per case.
    """
    d = workdir(tag)
    write_module(d, "Data", ["Integers", "Sequences", "TLC"], data_defs)
    src = os.path.join(SPEC, judge_module + ".tla")
    shutil.copy(src, os.path.join(d, judge_module + ".tla"))
    cfg = os.path.join(d, judge_module + ".cfg")
    with open(cfg, "w") as f:
        f.write(cfg_text or "INIT Init\nNEXT Next\nCHECK_DEADLOCK FALSE\n")
    res = run_tlc(os.path.join(d, judge_module + ".tla"), cfg, workers=workers, timeout=timeout)
    if not res.ok:
        raise MachineryError(
            f"TLC failed on {judge_module} ({tag}): {res.error}\n" + res.out[-3000:]
        )
    return res


def judge_cases(tag, judge_module, cases, extra_defs=None, chunk=600, maxpar=12, timeout=1800):
    """Judge `cases` (list of records) in parallel chunks; returns (verdicts, results)
    where verdicts[k] is the list printed for case k (without the leading index)."""
    from concurrent.futures import ThreadPoolExecutor
    if not cases:
        return [], []
    chunks = [cases[a:a + chunk] for a in range(0, len(cases), chunk)]

    def one(k):
        defs = {"Cases": chunks[k]}
        if extra_defs:
            defs.update(extra_defs)
        return judge(f"{tag}_{k}", judge_module, defs, timeout=timeout)

    with ThreadPoolExecutor(max_workers=maxpar) as ex:
        results = list(ex.map(one, range(len(chunks))))
    verdicts = []
    for ch, res in zip(chunks, results):
        got = {v[0]: v[1:] for v in res.verdicts}
        if len(got) != len(ch):
            raise MachineryError(f"{judge_module}: {len(got)} verdicts for {len(ch)} cases\n" + res.out[-2000:])
        verdicts.extend(got[j + 1] for j in range(len(ch)))
    return verdicts, results
