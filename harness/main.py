"""CLI: ./check Cxx --tier quick|thorough [--replay FILE]

exit 0: property held on everything explored
exit 1: VIOLATION (a line `VIOLATION property=<id> replay=<path>` is printed)
exit 2: the machinery failed (TLC crashed, reference evaluator disagreed with
        the specification, vacuity) -- never reported as a violation
"""
import argparse
import importlib
import json
import os
import sys
import traceback
import warnings


def main():
    ap = argparse.ArgumentParser()
    ap.add_argument("pid")
    ap.add_argument("--tier", default=os.environ.get("VERIF_TIER", "quick"), choices=["quick", "thorough"])
    ap.add_argument("--replay")
    a = ap.parse_args()
    warnings.filterwarnings("ignore")
    from . import core
    from .tla import MachineryError
    pid = a.pid.upper()
    try:
        mod = importlib.import_module(f"harness.props.{pid.lower()}")
    except ModuleNotFoundError as e:
        print(f"no check for {pid}: {e}")
        return 2
    from . import mc as _mc
    _mc.COVERAGE = a.tier == "thorough"
    run = core.Run(pid, a.tier, level=getattr(mod, "LEVEL", "model_checking"))
    try:
        if a.replay:
            with open(a.replay) as f:
                rp = json.load(f)
            mod.replay(run, rp["replay"])
        else:
            mod.run(run)
    except MachineryError as e:
        print(f"MACHINERY-FAILURE property={pid}: {e}")
        return 2
    except Exception:
        traceback.print_exc()
        print(f"MACHINERY-FAILURE property={pid}: unexpected exception in the harness")
        return 2
    return run.finish()


if __name__ == "__main__":
    sys.exit(main())
