"""Projection of a real cotengra ContractionTree onto the abstract state of
spec/TreeDefs.tla.  Only *public* query methods of the tree are used; the
returned dict is exactly one `Cases` record of SnapshotJudge.tla."""

from . import core  # noqa: F401  (puts /repo on sys.path)
import numpy as np


def node1(node):
    """cotengra node (frozenset of 0-based ints) -> 1-based leaf id set"""
    return frozenset(int(i) + 1 for i in node)


def ixset(net, legs):
    inv = net._inv()
    return frozenset(inv[l] for l in legs)


def build_tree(ct, net, ssa, **kw):
    return ct.ContractionTree.from_path(net.c_inputs(), net.c_output(), net.c_sizes(),
                                        ssa_path=[tuple(p) for p in ssa], **kw)


def sliced_of(net, tree):
    inv = net._inv()
    out = []
    for ind, si in tree.sliced_inds.items():
        out.append({"ind": inv[ind], "project": -1 if si.project is None else int(si.project)})
    return out


def children_of(tree):
    return [[node1(p), node1(l), node1(r)] for p, (l, r) in tree.children.items()]


def order_fns(rng=None):
    """traversal orders exercised (DESIGN C01): name -> order argument"""
    table = {}

    def rnd(node):
        key = tuple(sorted(node))
        if key not in table:
            table[key] = (rng.random() if rng else hash(key) % 97)
        return table[key]

    return {
        "none": None,
        "dfs": "dfs",
        "size": lambda node: len(node),
        "negsize": lambda node: -len(node),
        "minleaf": lambda node: min(node),
        "const": lambda node: 0,
        "rand": rnd,
        "surface": "surface_order",
    }


class Recorder:
    """A recording (einsum, tensordot) pair passed through the public
    implementation=(...) option (cotengra unpacks it as (einsum, tensordot))."""

    def __init__(self):
        self.calls = []

    def einsum(self, eq, *arrays):
        out = np.einsum(eq, *arrays)
        self.calls.append(("einsum", eq, [a.size for a in arrays], out.size, [a.shape for a in arrays], out.shape))
        return out

    def tensordot(self, a, b, axes):
        out = np.tensordot(a, b, axes)
        self.calls.append(("tensordot", axes, [a.size, b.size], out.size, [a.shape, b.shape], out.shape))
        return out

    def impl(self):
        return (self.einsum, self.tensordot)


def snapshot(net, tree, orders=None, arrays=None, exec_order=None, combo_factor=64, light=False, warm_order="__none__"):
    """Record everything the tree reports about itself."""
    snap = {"net": net.tla(), "ch": children_of(tree), "sliced": sliced_of(net, tree)}
    nodes = []
    for p in tree.children:
        nodes.append({
            "n": node1(p),
            "legs": ixset(net, tree.get_legs(p)),
            "involved": ixset(net, tree.get_involved(p)),
            "size": int(tree.get_size(p)),
            "flops": int(tree.get_flops(p)),
        })
    snap["nodes"] = nodes
    leafs = []
    for t in range(tree.N):
        lf = frozenset([t])
        leafs.append({"t": t + 1, "legs": ixset(net, tree.get_legs(lf)), "size": int(tree.get_size(lf))})
    snap["leafs"] = leafs
    st = tree.contract_stats()
    snap["stats"] = {"flops": int(st["flops"]), "write": int(st["write"]), "size": int(st["size"])}
    snap["mult"] = int(tree.multiplicity)
    snap["sliced_inputs"] = frozenset(int(i) + 1 for i in tree.sliced_inputs)
    # all leaf legs were touched above, so the lazy preprocessing map is filled
    snap["pre"] = frozenset(int(i) + 1 for i in tree.preprocessing)
    snap["combo"] = {"factor": combo_factor, "value": int(tree.combo_cost(factor=combo_factor)),
                     "limit": int(tree.combo_cost(factor=combo_factor, combine=max))}
    inv_ = net._inv()
    snap["view"] = {"inputs": [[inv_[ix] for ix in term] for term in tree.get_inputs_sliced()],
                    "output": [inv_[ix] for ix in tree.get_output_sliced()],
                    "shapes": [[int(d) for d in shp] for shp in tree.get_shapes_sliced()],
                    "nslices": int(tree.nslices)}
    peaks = []
    if orders and not light:
        for name, o in orders.items():
            seq = [node1(p) for p, _, _ in tree.traverse(o)]
            peaks.append({"seq": seq, "peak": int(tree.peak_size(order=o))})
    snap["peaks"] = peaks
    snap["exec"] = []
    snap["preexec"] = []
    if arrays is not None:
        rec = Recorder()
        impl = rec.impl()
        if warm_order != "__none__":
            # the same tree executed before in ANOTHER order with the very same options: the steps observed for
            # `exec_order` must still be those of `exec_order`
            tree.contract_slice(arrays, 0, order=warm_order, implementation=impl) \
                if tree.sliced_inds else tree.contract(arrays, order=warm_order, implementation=impl)
            rec.calls.clear()
        # slice 0 of the (possibly sliced) tree; shapes are per-slice shapes
        tree.contract_slice(arrays, 0, order=exec_order, implementation=impl) \
            if tree.sliced_inds else tree.contract(arrays, order=exec_order, implementation=impl)
        seq = [(p, l, r) for p, l, r in tree.traverse(exec_order)]
        pair_calls = [c for c in rec.calls if len(c[2]) == 2]
        pre_calls = [c for c in rec.calls if len(c[2]) == 1]
        if len(pair_calls) != len(seq):
            snap["exec"] = [{"n": frozenset(), "lsize": -1, "rsize": -1, "psize": -1}]
        else:
            snap["exec"] = [{"n": node1(p), "lsize": int(c[2][0]), "rsize": int(c[2][1]), "psize": int(c[3])}
                            for (p, l, r), c in zip(seq, pair_calls)]
        pre_keys = list(tree.preprocessing)
        snap["preexec"] = [{"t": int(t) + 1, "size": int(c[3])} for t, c in zip(pre_keys, pre_calls)]
        if len(pre_calls) != len(pre_keys):
            snap["preexec"].append({"t": 0, "size": -1})
    return snap


def snapshot_max(snap):
    """largest integer in a snapshot (TLC ints are 32 bit)"""
    m = 0
    for nd in snap["nodes"]:
        m = max(m, nd["size"], nd["flops"])
    m = max(m, snap["stats"]["flops"], snap["stats"]["write"], snap["combo"]["value"], snap["combo"].get("limit", 0))
    for pk in snap["peaks"]:
        m = max(m, pk["peak"])
    return m


# --------------------------------------------------------------------------
# compiled programs -> ProgramJudge steps
# --------------------------------------------------------------------------
def _letters(s):
    return [ord(ch) for ch in s]


def program_steps(contractions):
    """cotengra's tuple of (p, l, r, tdot, arg, perm) -> ProgramJudge steps"""
    steps = []
    for p, l, r, tdot, arg, perm in contractions:
        if l is None and r is None:
            lhs, rhs = arg.split("->")
            steps.append({"op": "pre", "n": node1(p), "lhs": _letters(lhs), "rhs": _letters(rhs)})
        elif tdot:
            al, ar = arg
            steps.append({"op": "tdot", "p": node1(p), "l": node1(l), "r": node1(r),
                          "al": [int(a) + 1 for a in al], "ar": [int(a) + 1 for a in ar],
                          "perm": [int(a) + 1 for a in perm] if perm else []})
        else:
            lhs, out = arg.split("->")
            L, R = lhs.split(",")
            steps.append({"op": "ein", "p": node1(p), "l": node1(l), "r": node1(r),
                          "lhs": _letters(L), "rhs": _letters(R), "out": _letters(out)})
    return steps


def compiled_program(tree, order=None, prefer_einsum=False, implementation=None, strip_exponent=False):
    """the program tree.contract(...) will execute for these options (it is
    compiled once per option key and kept in tree.contraction_cores)"""
    fn = tree.get_contractor(order=order, prefer_einsum=prefer_einsum, implementation=implementation,
                             strip_exponent=strip_exponent, autojit=False)
    return program_steps(fn.contractions)


def program_case(net, tree, steps, value=None, refvalue=None):
    import numpy as np
    case = {"net": net.tla(), "sliced": sliced_of(net, tree), "steps": steps,
            "value": [], "refvalue": [], "check_value": False}
    if value is not None:
        case["value"] = [int(v) for v in np.asarray(value).reshape(-1)]
        case["refvalue"] = [int(v) for v in np.asarray(refvalue).reshape(-1)]
        case["check_value"] = True
    return case
