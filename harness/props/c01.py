"""C01 - contracting with any tree gives the einsum value, in declared axis order.

Binding A: every binary tree (all for N <= 4/5, random beyond) x option sets.
For each, the program the tree compiles (what tree.contract really executes)
is validated step by step by TLC against spec/Program.tla (soundness for ALL
arrays), and the numeric result on exact integer arrays is compared with the
definitional einsum (TLC-computed for a sample, the harness' evaluator - itself
cross-checked by TLC in the same run - for the rest).
"""
import random

import numpy as np

from .. import core, nets, observe, tla

LEVEL = "model_checking"

# "cotengra+minilib": cotengra's own einsum / tensordot driven with backend="verif_minilib", an array library without
# einsum / tensordot (see c11.install_minilib): the single-term steps then use cotengra's own diagonal / sum / transpose code
IMPLS = ["auto", "cotengra", "autoray", "recording", "cotengra+minilib"]
SORTS = [None, ("flops", True, True), ("size", True, False), ("root", False, True), ("leaves", True, True), "reset",
         ("contracted-before", "flops"), ("contracted-before", "leaves"),
         ("contracted-before", "flops", "reset"), ("contracted-before", "size", "reset"), ("contracted-before", "leaves", "reset")]


def option_sets(rng, k):
    out = []
    onames = list(observe.order_fns())
    for _ in range(k):
        out.append({"order": rng.choice(onames), "prefer_einsum": rng.random() < 0.4,
                    "impl": rng.choice(IMPLS), "sort": rng.choice(SORTS)})
    return out


def arrays_for_state(tree):
    return [np.ones([tree.size_dict[ix] for ix in term]) for term in tree.inputs]


def apply_sort(tree, sort):
    if sort is None:
        return
    if sort == "reset":
        tree.sort_contraction_indices()
        tree.reset_contraction_indices()
        return
    if sort[0] == "contracted-before":
        # the tree has already compiled and run a contraction with other options, and the index orders are then
        # re-sorted without resetting them first
        arrays = arrays_for_state(tree)
        tree.contract(arrays)
        # ... or with the default reset (every recipe derived from the old orders must go, the root's too)
        tree.sort_contraction_indices(priority=sort[1], reset=len(sort) > 2)
        return
    pr, oc, cc = sort
    tree.sort_contraction_indices(priority=pr, make_output_contig=oc, make_contracted_contig=cc)


def one_case(run, ct, rng, net, ssa, opt, tlc_value):
    """returns list of (program_case, desc)"""
    desc = {"net": net.to_json(), "ssa": [list(p) for p in ssa], "opt": opt}
    try:
        with core.watchdog(60):
            tree = observe.build_tree(ct, net, ssa)
            apply_sort(tree, opt["sort"])
            orders = observe.order_fns(random.Random(1))
            order = orders[opt["order"]]
            rec = observe.Recorder()
            impl = rec.impl() if opt["impl"] == "recording" else opt["impl"]
            bk = {}
            if impl == "cotengra+minilib":
                from . import c11
                c11.install_minilib()
                impl, bk = "cotengra", {"backend": "verif_minilib"}
            steps = observe.compiled_program(tree, order=order, prefer_einsum=opt["prefer_einsum"],
                                             implementation=impl)
            arrays = nets.canon_arrays(net)
            got = tree.contract(arrays, order=order, prefer_einsum=opt["prefer_einsum"], implementation=impl, **bk)
            arrays2 = nets.rand_int_arrays(net, rng)
            got2 = tree.contract(arrays2, order=order, prefer_einsum=opt["prefer_einsum"], implementation=impl, **bk)
    except Exception as e:
        run.violation(f"contract raised {core.exc_text(e)} eq={net.eq()} dims={net.dims} ssa={ssa} opt={opt}",
                      desc, tags=["raised", type(e).__name__])
        return []
    ref = nets.refeval(net, arrays)
    ref2 = nets.refeval(net, arrays2)
    want_shape = tuple(net.dim(ix) for ix in net.output)
    for g, r, which in ((got, ref, "canonical"), (got2, ref2, "random")):
        g = np.asarray(g)
        if g.shape != want_shape or not np.array_equal(g, r):
            run.violation(f"value/shape differs from the einsum ({which} arrays): eq={net.eq()} dims={net.dims} "
                          f"ssa={ssa} opt={opt} got shape {g.shape} want {want_shape}", desc, tags=["value"])
            return []
    use_val = tlc_value and nets.fits32(ref) and ref.size <= 64
    case = observe.program_case(net, tree, steps, value=got if use_val else None, refvalue=ref if use_val else None)
    return [(case, desc)]


def run(run):
    import cotengra as ct
    rng = random.Random(run.seed * 1009 + 1)
    quick = run.tier == "quick"
    pool = nets.net_pool(rng, 26 if quick else 200, nmin=2, nmax=5 if quick else 7)
    cases = []
    for net in pool:
        if net.N <= (4 if quick else 5):
            trees = nets.all_trees(net.N)
            if len(trees) > (15 if quick else 105):
                trees = rng.sample(trees, 15 if quick else 105)
        else:
            trees = [nets.rand_tree(rng, net.N) for _ in range(8 if quick else 30)]
        for tr in trees:
            ssa = nets.tree_to_ssa(tr, net.N, rng)
            for opt in option_sets(rng, 3 if quick else 5):
                cases += one_case(run, ct, rng, net, ssa, opt, tlc_value=rng.random() < (0.25 if quick else 0.15))
    judge(run, cases)
    run.cov["rule"] = ("own network generator (hyper, repeated, dangling, scalar, outer, disconnected, dim-1, non-ascii labels) "
                       "x all binary trees for N<=4 (quick) / N<=5 (thorough), random trees beyond x random option sets "
                       "(7 traversal orders, prefer_einsum, 5 implementations (incl. cotengra's own routines on a backend without einsum / tensordot), 6 index-order states); distinct by "
                       "(network, tree, options); every case: program validated by TLC + exact numeric comparison on 2 array sets")
    run.assumptions += ["numpy integer-valued float64 arithmetic is exact below 2^53",
                        "harness evaluator refeval agrees with Network!Einsum (cross-checked by TLC on the sampled cases of this run)"]


def judge(run, cases):
    verdicts, results = tla.judge_cases(f"c01_{run.tier}", "ProgramJudge", [c[0] for c in cases], chunk=300)
    for res in results:
        run.tlc(res)
    run.cov["traces_validated_against_impl"] += len(cases)
    nval = 0
    for (case, desc), v in zip(cases, verdicts):
        run.count()
        run.nontrivial((desc["net"]["eq"], str(desc["net"]["dims"]), str(desc["ssa"]), str(desc["opt"])))
        nval += case["check_value"]
        if v[0] == "refeval-disagrees-with-spec":
            raise tla.MachineryError(f"harness evaluator disagrees with Network!Einsum on {desc}")
        if v[0] != "ok":
            run.violation(f"compiled program rejected by spec/Program.tla at step {v[1]}: clause '{v[0]}' "
                          f"eq={desc['net']['eq']} dims={desc['net']['dims']} ssa={desc['ssa']} opt={desc['opt']}",
                          desc, tags=[v[0]])
        else:
            run.sample({"eq": desc["net"]["eq"], "dims": desc["net"]["dims"], "ssa": desc["ssa"], "opt": desc["opt"],
                        "program_steps": len(case["steps"]), "value_checked_by_tlc": case["check_value"], "verdict": "ok"})
    run.extra["values_judged_by_tlc"] = run.extra.get("values_judged_by_tlc", 0) + nval


def replay(run, desc):
    import cotengra as ct
    rng = random.Random(0)
    net = nets.Net.from_json(desc["net"])
    cases = one_case(run, ct, rng, net, [tuple(p) for p in desc["ssa"]], desc["opt"], tlc_value=True)
    judge(run, cases)
