"""C14 - a reusable optimizer's cache hit is a correct answer for the question asked.

Design level: MC_Reusable_* (the lookup / run / overwrite policy for every
overwrite x cache_only x disk configuration: AnswersQuery, RepeatIsHit,
ImprovedMonotone, CacheOnlyNeverRuns, MemCoherent).
Binding: TLC enumerates all query sequences (with restarts) of length 3 over a
pool of 7 similar contractions; each is replayed on real Reusable* optimizers;
the recorded trace (did it search, which stored entry answered, directory
contents, scores) is validated by TLC against the policy (ReusableJudge), which
also requires the implementation's fingerprints to partition the pool exactly
as the canonical forms of the spec do.  Every answer is checked to be a
complete tree of the *queried* contraction with the stored path, sliced
indices and a score that is valid for the query.
"""
import os
import random
import shutil
import tempfile

from .. import core, nets, observe, tla, mc

LEVEL = "model_checking"


def make_pool(rng):
    """7 similar contractions over one label universe (index ids -> labels)"""
    base = nets.ordinary_net(rng, n=rng.choice([4, 5]), maxdim=4, n_out=2, hyper=True)
    while base.K < 4 or len(set(base.dims)) < 2:
        base = nets.ordinary_net(rng, n=rng.choice([4, 5]), maxdim=4, n_out=2, hyper=True)
    lab = {ix: chr(ord("a") + ix - 1) for ix in range(1, base.K + 8)}

    def mk(inputs, output, dims, kind):
        n = nets.Net(inputs, output, dims, lab=lab, kind=kind)
        return n

    pool = [mk(base.inputs, base.output, base.dims, "base")]
    # 2: index order permuted inside tensors
    p = [list(t) for t in base.inputs]
    for t in p:
        rng.shuffle(t)
    if [tuple(t) for t in p] == list(base.inputs):
        p[0] = p[0][::-1]
    pool.append(mk(p, base.output, base.dims, "perm-within-tensors"))
    # 3: output permuted
    pool.append(mk(base.inputs, base.output[::-1], base.dims, "perm-output"))
    # 4: one size changed
    d = list(base.dims)
    d[rng.randrange(len(d))] += 1
    pool.append(mk(base.inputs, base.output, d, "size-changed"))
    # 5: sizes of two indices swapped (same topology, same multiset of sizes... names differ)
    d = list(base.dims)
    pairs = [(a, b) for a in range(len(d)) for b in range(a + 1, len(d)) if d[a] != d[b]]
    a, b = rng.choice(pairs)
    d[a], d[b] = d[b], d[a]
    pool.append(mk(base.inputs, base.output, d, "sizes-swapped"))
    # 6: relabelled so that the SAME size table belongs to a differently wired network:
    #    apply a permutation of index names to the wiring only (hash 'b' forgets names in the wiring)
    perm = list(range(1, base.K + 1))
    for _ in range(20):
        rng.shuffle(perm)
        if any(base.dims[i] != base.dims[perm[i] - 1] for i in range(base.K)):
            break
    ren = {i + 1: perm[i] for i in range(base.K)}
    pool.append(mk([[ren[ix] for ix in t] for t in base.inputs], [ren[ix] for ix in base.output], base.dims,
                   "wiring-renamed-sizes-kept"))
    # 7: tensors reordered
    order = list(range(base.N))
    rng.shuffle(order)
    if order == list(range(base.N)):
        order = order[::-1]
    pool.append(mk([base.inputs[i] for i in order], base.output, base.dims, "tensors-reordered"))
    return pool


def con_record(net):
    return {"inputs": [list(t) for t in net.inputs], "output": list(net.output),
            "dim": {ix: net.dims[ix - 1] for ix in range(1, net.K + 1)}}


def sequences_from_tlc(run):
    res = mc.run_mc("MC_Reusable_gen", workers=1, module="MC_Reusable")
    run.tlc(res)
    return [v[0] for v in res.verdicts]


class Recorder:
    def __init__(self):
        self.runs = 0
        self.last_run_con = None
        self.answer_con = None
        self.last_update_con = None


def instrument(cls, rec):
    """harness-side subclass: counts searches and tags every stored entry with its run number"""
    class Wrapped(cls):
        def _run_optimizer(self, inputs, output, size_dict):
            con = super()._run_optimizer(inputs, output, size_dict)
            rec.runs += 1
            con = dict(con)
            con["verif_run"] = rec.runs
            rec.last_run_con = con
            return con

        def _reconstruct_tree(self, inputs, output, size_dict, con):
            rec.answer_con = con
            return super()._reconstruct_tree(inputs, output, size_dict, con)
    Wrapped.__name__ = cls.__name__
    return Wrapped


class TagCache:
    """proxy around the optimizer's cache object: an entry stored without a run tag (update_from_tree builds its own
    record) gets the next tag, so that the judge can tell which entry answers later queries"""
    def __init__(self, inner, rec):
        object.__setattr__(self, "_inner", inner)
        object.__setattr__(self, "_rec", rec)

    def __setitem__(self, k, v):
        if isinstance(v, dict) and "verif_run" not in v:
            self._rec.runs += 1
            v = dict(v, verif_run=self._rec.runs, verif_update=True)
            self._rec.last_update_con = v
        self._inner[k] = v

    def __getitem__(self, k):
        return self._inner[k]

    def __contains__(self, k):
        return k in self._inner

    def __getattr__(self, name):
        return getattr(self._inner, name)


def disk_listing(directory, split):
    if directory is None:
        return []
    out = []
    for root, dirs, files in os.walk(directory):
        for f in files:
            rel = os.path.relpath(os.path.join(root, f), directory)
            out.append(rel.replace(os.sep, ""))
    return sorted(out)


def _in_child(fn):
    """run fn() in a forked process (its own memory from here on) and return its pickled result"""
    import pickle
    r, w = os.pipe()
    pid = os.fork()
    if pid == 0:
        try:
            os.close(r)
            try:
                data = pickle.dumps(("ok", fn()))
            except BaseException as e:       # noqa
                data = pickle.dumps(("err", core.exc_text(e)))
            with os.fdopen(w, "wb") as f:
                f.write(data)
        finally:
            os._exit(0)
    os.close(w)
    with os.fdopen(r, "rb") as f:
        data = f.read()
    os.waitpid(pid, 0)
    kind, val = pickle.loads(data)
    if kind == "err":
        raise RuntimeError("segment in fresh process failed: " + val)
    return val


def replay_sequence(run, ct, rng, pool, seq, cfg):
    """returns (judge case, desc) ; harness-side validity checks raise violations"""
    from cotengra import reusable
    rec = Recorder()
    kind = cfg["kind"]
    base_cls = {"hyper": ct.ReusableHyperOptimizer, "hypercomp": ct.ReusableHyperCompressedOptimizer,
                "rgreedy": ct.ReusableRandomGreedyOptimizer}[kind]
    cls = instrument(base_cls, rec)
    directory = tempfile.mkdtemp(prefix="c14_", dir=tla.workdir("c14_dirs")) if cfg["disk"] else None
    desc = {"pool": [p.to_json() for p in pool], "seq": seq, "cfg": cfg}
    tags = {"hash:" + cfg["hash"], "overwrite:" + str(cfg["overwrite"]), "kind:" + kind}

    def new_opt(ow, co, first=True):
        # objects created after a restart may open the directory with directory_split="auto" (layout detection)
        split = cfg["split"] if (first or not cfg.get("auto_after_restart")) else "auto"
        kw = dict(directory=directory, overwrite=ow, hash_method=cfg["hash"], cache_only=co,
                  directory_split=split)
        if kind == "hyper":
            o = cls(methods=["greedy"], max_repeats=2, optlib="random", parallel=False, minimize=cfg.get("minimize", "flops"),
                    slicing_opts={"target_slices": 2}, **kw)
        elif kind == "hypercomp":
            # the compressed variant, bond cap given explicitly (it is part of the objective the entries are scored with)
            o = cls(chi=cfg.get("chi"), methods=["greedy-compressed"], max_repeats=2, optlib="random", parallel=False,
                    minimize=cfg.get("cminimize", "peak-compressed"), **kw)
        else:
            o = cls(max_repeats=2, seed=rng.randrange(1000), parallel=False, **kw)
        o._cache = TagCache(o._cache, rec)
        return o

    viol = []

    def _viol(msg, d, tags=()):
        viol.append((msg, set(tags)))

    ow_py = {"no": False, "yes": True, "improved": "improved"}[cfg["overwrite"]]
    hashes_raw = [reusable.hash_contraction(p.c_inputs(), p.c_output(), p.c_sizes(), cfg["hash"]) for p in pool]
    classes = {h: i + 1 for i, h in enumerate(sorted(set(hashes_raw)))}
    hashes = [classes[h] for h in hashes_raw]
    events = []
    scores_seen = []
    raw = []
    # split the sequence into segments at the restarts; a segment runs in this process (quick tier)
    # or in a freshly forked process that builds its own optimizer object (cfg["fresh_process"])
    segments, cur = [], []
    for step, q in enumerate(seq):
        if q == 0:
            segments.append(cur)
            cur = []
        else:
            cur.append((step, q))
    segments.append(cur)
    nsteps = len(seq)

    def do_segment(seg, si=0):
        nonlocal raw
        raw = []
        opt = new_opt(ow_py, False, first=(si == 0))
        for step, q in seg:
            if isinstance(q, list):
                # ["u", pool index, mode, quality]: update_from_tree with a tree made outside the optimizer
                _, uq, mode, quality = q
                net = pool[uq - 1]
                if quality == "optimal":
                    utree = ct.array_contract_tree(net.c_inputs(), net.c_output(), net.c_sizes(), optimize="optimal", canonicalize=False)
                else:
                    utree = observe.build_tree(ct, net, nets.tree_to_ssa(nets.rand_tree(rng, net.N), net.N, rng))
                utree.set_default_objective(opt.minimize)
                akw = {} if mode == "default" else {"overwrite": {"no": False, "yes": True, "improved": "improved"}[mode]}
                rec.last_update_con = None
                with core.watchdog(120):
                    opt.update_from_tree(utree, **akw)
                wrote = rec.last_update_con
                if wrote is not None:
                    # the entry written is the tree handed in: its path, its sliced indices, its own score
                    if tuple(map(tuple, wrote["path"])) != tuple(map(tuple, utree.get_path())) \
                            or tuple(wrote["sliced_inds"]) != tuple(utree.sliced_inds) \
                            or abs(wrote["score"] - utree.get_score()) > 1e-9 * max(1, abs(utree.get_score())):
                        _viol(f"update_from_tree stored an entry (score {wrote['score']:.6f}) that is not the tree handed in (score "
                              f"{utree.get_score():.6f}) for {net.kind} eq={net.eq()}", desc, tags=tags | {"update-entry-differs-from-tree"})
                h = opt.hash_query(net.c_inputs(), net.c_output(), net.c_sizes())[0]
                mc_ = opt._cache._mem_cache
                con = mc_.get(h) or mc_.get(h if isinstance(h, tuple) else (h,))
                if con is None and directory:
                    con = opt._cache[h]
                raw.append({"kind": "update", "q": uq, "ow": "improved" if mode == "default" else mode, "co": False, "ran": False,
                            "outcome": "none", "_runscore": float(utree.get_score()),
                            "answer_run": int(con["verif_run"]) if con else 0,
                            "disk": sorted(set(classes.get(x, 0) for x in disk_listing(directory, cfg["split"])))})
                continue
            net = pool[q - 1]
            # cache_only is exercised on the last query of a sequence with probability 1/3
            co = cfg["cache_only_last"] and step == nsteps - 1
            opt.cache_only = co
            rec.answer_con = None
            runs0 = rec.runs
            use_call = cfg["via_call"] and step % 2 == 1
            outcome, tree, path = "tree", None, None
            try:
                with core.watchdog(120):
                    if use_call:
                        path = opt(net.c_inputs(), net.c_output(), net.c_sizes())
                    else:
                        tree = opt.search(net.c_inputs(), net.c_output(), net.c_sizes())
            except KeyError:
                outcome = "KeyError"
            ran = rec.runs > runs0
            h = opt.hash_query(net.c_inputs(), net.c_output(), net.c_sizes())[0]
            mc_ = opt._cache._mem_cache
            con = mc_.get(h) or mc_.get(h if isinstance(h, tuple) else (h,))
            if outcome == "tree":
                if ran and rec.answer_con is None and not use_call:
                    answer = rec.last_run_con
                elif rec.answer_con is not None:
                    answer = rec.answer_con
                else:
                    answer = con
            else:
                answer = None
            ev = {"kind": "query", "q": q, "ow": cfg["overwrite"], "co": bool(co), "ran": bool(ran), "outcome": outcome,
                  "_runscore": rec.last_run_con["score"] if ran else None,
                  "answer_run": int(answer["verif_run"]) if answer else 0,
                  "disk": sorted(set(classes.get(x, 0) for x in disk_listing(directory, cfg["split"])))}
            raw.append(ev)
            # ---- validity of the answer for the QUERIED contraction ------------------
            if outcome == "tree" and answer is not None:
                try:
                    rebuilt = ct.ContractionTree.from_path(net.c_inputs(), net.c_output(), net.c_sizes(), path=answer["path"],
                                                           autocomplete=False)
                    ok_complete = rebuilt.is_complete()
                    for ix in answer["sliced_inds"]:
                        rebuilt.remove_ind_(ix)
                except Exception as e:
                    _viol(f"stored entry is not valid for the queried contraction ({core.exc_text(e)}) "
                                  f"query={net.kind} eq={net.eq()} stored path={answer['path']} sliced={answer['sliced_inds']}",
                                  desc, tags=tags | {"stored-entry-invalid-for-query"})
                    continue
                if not ok_complete:
                    _viol(f"stored path does not give a complete tree of the query {net.kind} eq={net.eq()}", desc,
                                  tags=tags | {"stored-entry-invalid-for-query"})
                if tree is not None:
                    if tuple(map(tuple, tree.inputs)) != net.c_inputs() or tuple(tree.output) != net.c_output() \
                            or dict(tree.size_dict) != net.c_sizes() or not tree.is_complete():
                        _viol(f"returned tree is not a complete tree of the queried contraction {net.kind}",
                                      desc, tags=tags | {"wrong-tree"})
                    elif tuple(tree.get_path()) != tuple(map(tuple, answer["path"])) or \
                            tuple(tree.sliced_inds) != tuple(answer["sliced_inds"]):
                        _viol(f"returned tree differs from the stored entry (path / sliced indices) for {net.kind}",
                                      desc, tags=tags | {"tree-differs-from-entry"})
                    elif kind in ("hyper", "hypercomp"):
                        # the tree handed back carries the optimizer's objective: its own score is the stored score
                        try:
                            ts = tree.get_score()
                        except Exception as e:
                            ts = None
                            _viol(f"returned tree cannot be scored: {core.exc_text(e)}", desc, tags=tags | {"tree-score"})
                        # (members that differ merely in the order of indices within a tensor / the output have the same figures)
                        shares = 1 + sum(1 for i in range(len(pool)) if hashes[i] == hashes[q - 1]
                                         and pool[i].kind not in ("base", "perm-within-tensors", "perm-output"))
                        if net.kind not in ("base", "perm-within-tensors", "perm-output"):
                            shares = sum(1 for i in range(len(pool)) if hashes[i] == hashes[q - 1])
                        if ts is not None and shares == 1 and abs(ts - answer["score"]) > 1e-9 * max(1, abs(ts)):
                            _viol(f"the returned tree's own score {ts:.6f} (objective {getattr(tree, '_default_objective', None)}) is not "
                                  f"the score {answer['score']:.6f} stored for it (optimizer built with minimize={cfg.get('minimize')}) "
                                  f"for {net.kind}", desc, tags=tags | {"tree-score-differs-from-stored-score"})
                if path is not None and tuple(map(tuple, path)) != tuple(map(tuple, answer["path"])):
                    _viol(f"returned path differs from the stored path for {net.kind}", desc, tags=tags | {"path-differs"})
                # the stored score must be a score of the tree rebuilt for THIS query
                if kind == "hypercomp":
                    continue    # (the compressed figures depend on the step order: judged through the returned tree's own score)
                if kind == "hyper" or answer.get("verif_update"):
                    rebuilt.set_default_objective(opt.minimize)
                    sc = rebuilt.get_score()
                else:
                    # the random-greedy class stores log10 of the flops of the path it returns
                    import math
                    sc = math.log10(max(1, rebuilt.total_flops()))
                if True:
                    if abs(sc - answer["score"]) > 1e-9 * max(1, abs(sc)):
                        # the pool members sharing the query's fingerprint identify the input class (F11: same wiring,
                        # sizes sitting on other edges)
                        sharing = {pool[i].kind for i in range(len(pool)) if hashes[i] == hashes[q - 1]}
                        fam = {"base", "perm-within-tensors", "perm-output"}
                        pair_tag = {"pair:same-wiring-sizes-on-other-edges"} \
                            if ("wiring-renamed-sizes-kept" in sharing
                                and sharing <= fam | {"wiring-renamed-sizes-kept", "tensors-reordered"}) else set()
                        # (for a symmetric enough wiring the member with its tensors in another order has the same
                        # name-free fingerprint too; the entry that does not fit is still the one of the renamed member)
                        _viol(f"stored score {answer['score']:.6f} is not the score {sc:.6f} of the answer rebuilt for the "
                                      f"query {net.kind} (eq={net.eq()} sizes={net.c_sizes()}): entry shared between "
                                      f"contractions for which it is not equally valid (sharing the fingerprint: {sorted(sharing)})", desc,
                                      tags=tags | {"stored-score-invalid-for-query"} | pair_tag)
        return raw, viol, rec.runs, rec.last_run_con

    try:
        all_raw = []
        for si, seg in enumerate(segments):
            if si > 0:
                all_raw.append({"kind": "restart"})
            if cfg.get("fresh_process") and directory:
                r_, v_, runs_, last_ = _in_child(lambda: do_segment(seg, si))
                rec.runs, rec.last_run_con = runs_, last_
                viol[:] = v_
            else:
                r_, _, _, _ = do_segment(seg, si)
            all_raw += r_
        raw = all_raw
    finally:
        if directory:
            shutil.rmtree(directory, ignore_errors=True)
    for msg, tg in viol:
        run.violation(msg, desc, tags=tg)
    # scores -> ranks
    vals = sorted(set(e["_runscore"] for e in raw if e.get("_runscore") is not None))
    rank = {v: i + 1 for i, v in enumerate(vals)}
    for e in raw:
        if e["kind"] in ("query", "update"):
            rs = e.pop("_runscore")
            e["runscore"] = rank.get(rs, 0)
            e["disk"] = set(e["disk"])
            events.append(e)
        else:
            events.append({"kind": "restart", "q": 0, "ow": "no", "co": False, "ran": False, "outcome": "none",
                           "runscore": 0, "answer_run": 0, "disk": set()})
    case = {"pool": [con_record(p) for p in pool], "hashes": hashes, "method": cfg["hash"], "hasdisk": bool(cfg["disk"]),
            "events": events}
    return case, desc, tags


def run(run):
    import cotengra as ct
    rng = random.Random(run.seed * 7001 + 14)
    quick = run.tier == "quick"
    names = ["MC_Reusable_improved_FALSE_TRUE", "MC_Reusable_no_FALSE_TRUE", "MC_Reusable_yes_FALSE_TRUE",
             "MC_Reusable_no_TRUE_TRUE", "MC_Reusable_improved_FALSE_FALSE"]
    if not quick:
        names = [f"MC_Reusable_{ow}_{co}_{hd}" for ow in ("no", "yes", "improved") for co in ("FALSE", "TRUE") for hd in ("TRUE", "FALSE")]
    run.extra["mc_instances"] = {}
    for nm in names:
        res = mc.run_mc(nm, workers=4, module="MC_Reusable")
        run.tlc(res)
        run.extra["mc_instances"][nm] = {"states": res.distinct, "exhaustive": True}
    seqs = sequences_from_tlc(run)
    run.extra["sequences_enumerated_by_tlc"] = len(seqs)
    if quick:
        seqs = rng.sample(seqs, 150)
    results = []
    pools = [make_pool(rng) for _ in range(3 if quick else 10)]
    for seq in seqs:
        cfg = {"kind": rng.choice(["hyper", "hyper", "hyper", "hyper", "rgreedy", "rgreedy", "hypercomp"]), "chi": rng.choice([None, 2, 2, 3, 4]),
               "cminimize": rng.choice(["peak-compressed", "peak-compressed", "size-compressed"]), "hash": rng.choice(["a", "a", "b"]),
               "disk": rng.random() < 0.7, "split": rng.choice([True, False, "auto"]),
               "overwrite": rng.choice(["no", "no", "yes", "improved", "improved"]),
               "cache_only_last": rng.random() < 0.3, "via_call": rng.random() < 0.4,
               "fresh_process": (not quick) or rng.random() < 0.15, "auto_after_restart": rng.random() < 0.5,
               "minimize": rng.choice(["flops", "flops", "combo", "size", "write", "combo-256"])}
        pool = rng.choice(pools)
        if cfg["kind"] in ("hyper", "rgreedy") and rng.random() < 0.45:
            # answers handed in from outside (update_from_tree) with their own overwrite mode, anywhere in the sequence
            seq = list(seq)
            for _ in range(rng.choice([1, 1, 2])):
                pos = rng.randint(0, len(seq))
                seq.insert(pos, ["u", rng.randint(1, len(pool)), rng.choice(["default", "default", "no", "yes", "improved"]),
                                 rng.choice(["optimal", "random", "random"])])
        run.count()
        run.nontrivial((str(seq), str(cfg), pool[0].eq()))
        try:
            r = replay_sequence(run, ct, rng, pool, seq, cfg)
        except Exception as e:
            run.violation(f"reusable optimizer raised {core.exc_text(e)} on sequence {seq} cfg={cfg}",
                          {"seq": seq, "cfg": cfg, "pool": [p.to_json() for p in pool]}, tags={"raised", "hash:" + cfg["hash"]})
            continue
        results.append(r)
    judge(run, results)
    fresh_readers(run, ct, rng, pools, quick)
    run.cov["rule"] = ("query sequences (length 3 + restarts) over a pool of 7 similar contractions, all enumerated by TLC from "
                       "Reusable.tla (quick: 150 sampled) x random configuration {hyper | random-greedy, hash a|b, directory or memory, "
                       "directory_split, overwrite, cache_only on the last query, search | __call__}; distinct by (sequence, config, pool)")
    run.assumptions += ["SHA-1 is injective on canonical forms", "restart = a new optimizer object on the same directory (a fresh "
                        "process shares nothing else with it)"]


def fresh_readers(run, ct, rng, pools, quick):
    """every class of reusable optimizer, every objective variant: an entry written by one object is handed back by OTHER
    readers - a new object on the same directory, a cache_only reader, another thread of the writer - as the tree stored,
    carrying the score stored for it"""
    import threading
    combos = []
    for chi in (None, 2, 3):
        for cm in ("peak-compressed", "size-compressed"):
            combos.append(("hypercomp", dict(chi=chi, minimize=cm, methods=["greedy-compressed"], max_repeats=2, optlib="random",
                                             parallel=False)))
    for m in ("flops", "size", "write", "combo", "combo-256", "limit"):
        combos.append(("hyper", dict(minimize=m, methods=["greedy"], max_repeats=2, optlib="random", parallel=False)))
    if quick:
        combos = rng.sample(combos[:6], 3) + rng.sample(combos[6:], 2)
    classes = {"hyper": ct.ReusableHyperOptimizer, "hypercomp": ct.ReusableHyperCompressedOptimizer}
    for kind, kw in combos:
        pool = rng.choice(pools)
        net = pool[0]
        directory = tempfile.mkdtemp(prefix="c14_fr_", dir=tla.workdir("c14_dirs"))
        d = {"net": net.to_json(), "class": kind, "options": {k: str(v) for k, v in kw.items()}}
        run.count()
        run.nontrivial(("fresh-readers", kind, str(kw), net.eq()))
        try:
            with core.watchdog(300):
                args = (net.c_inputs(), net.c_output(), net.c_sizes())
                o1 = classes[kind](directory=directory, **kw)
                t1 = o1.search(*args)
                h, missing = o1.hash_query(*args)
                stored = o1._cache[h]
                readers = {}
                readers["a new object on the same directory"] = classes[kind](directory=directory, **kw).search(*args)
                readers["a cache_only reader on the same directory"] = classes[kind](directory=directory, cache_only=True, **kw).search(*args)
                out = {}
                th = threading.Thread(target=lambda: out.__setitem__("t", o1.search(*args)))
                th.start()
                th.join()
                readers["another thread of the writing object"] = out.get("t")
                readers["the writing object again"] = o1.search(*args)
            for who, t in readers.items():
                if t is None:
                    run.violation(f"{who} got no tree ({kind}, {kw})", d, tags={"fresh-reader", "no-tree"})
                    continue
                if tuple(map(tuple, t.get_path())) != tuple(map(tuple, stored["path"])) or tuple(t.sliced_inds) != tuple(stored["sliced_inds"]):
                    run.violation(f"{who} got a tree that differs from the stored entry ({kind}, {kw}) eq={net.eq()}", d,
                                  tags={"fresh-reader", "tree-differs-from-entry"})
                elif abs(t.get_score() - stored["score"]) > 1e-9 * max(1, abs(stored["score"])):
                    run.violation(f"{who} got a tree whose own score {t.get_score():.6f} is not the score {stored['score']:.6f} stored "
                                  f"for it ({kind}, {kw}) eq={net.eq()}", d, tags={"fresh-reader", "tree-score-differs-from-stored-score"})
        except Exception as e:
            run.violation(f"reusable optimizer ({kind}, {kw}) raised {core.exc_text(e)} with several readers eq={net.eq()}", d,
                          tags={"fresh-reader", "raised"})
        finally:
            shutil.rmtree(directory, ignore_errors=True)


def judge(run, results):
    cases = [r[0] for r in results]
    cfg = "INIT JInit\nNEXT JNext\nCHECK_DEADLOCK FALSE\n"
    from concurrent.futures import ThreadPoolExecutor
    chunks = [results[a:a + 60] for a in range(0, len(results), 60)]

    def one(k):
        return tla.judge(f"c14_{run.tier}_{k}", "ReusableJudge", {"Cases": [r[0] for r in chunks[k]]}, cfg_text=cfg)
    with ThreadPoolExecutor(8) as ex:
        outs = list(ex.map(one, range(len(chunks))))
    for ch, res in zip(chunks, outs):
        run.tlc(res, traces=len(ch))
        got = {v[0]: v[1:] for v in res.verdicts}
        for j, (case, desc, tags) in enumerate(ch):
            v = got[j + 1]
            if v[0] != "ok":
                ev = case["events"][v[1] - 1] if 1 <= v[1] <= len(case["events"]) else None
                kinds = [p["kind"] for p in desc["pool"]]
                run.violation(f"sequence rejected by ReusableJudge: {v[0]} at step {v[1]} | seq={desc['seq']} cfg={desc['cfg']} "
                              f"pool={kinds} hashes={case['hashes']} event={ev}", desc, tags=tags | {v[0]})
            else:
                run.sample({"seq": desc["seq"], "cfg": desc["cfg"], "fingerprint_classes": case["hashes"],
                            "events": [{k: (sorted(x) if isinstance(x, set) else x) for k, x in e.items()} for e in case["events"]],
                            "verdict": "ok"})


def replay(run, desc):
    import cotengra as ct
    pool = [nets.Net.from_json(p) for p in desc["pool"]]
    lab = {ix: chr(ord("a") + ix - 1) for ix in range(1, 40)}
    for p in pool:
        p.lab = lab
    r = replay_sequence(run, ct, random.Random(0), pool, desc["seq"], desc["cfg"])
    run.count()
    judge(run, [r])
