"""C08 - the hyper-optimizer returns its best trial and reports its true costs.

Design level: MC_HyperOpt (every interleaving of submissions, worker
completions and polls for a window of PreDispatch futures; BestIsMin,
NoMoreThanRequested, FailuresIsolated, AllReported, Progress).
Binding A: TLC enumerates the schedules (MC_HyperOpt_gen: every report order
the window allows for 7 trials, pre_dispatch 5); each is forced on the real
HyperOptimizer with a fake pool whose futures report done() according to the
schedule; the run's event trace is validated by TLC (HyperOptJudge).
Binding B: serial runs, real thread pools and process pools: the observed
submit / report trace must be accepted by the same judge.
In every run the returned tree must be a complete tree of the queried network
and the figures recorded for the winning trial must equal the figures of the
returned tree as recomputed from the definitions (SnapshotJudge).
"""
import math
import random
import threading

from .. import core, nets, observe, tla, mc

LEVEL = "model_checking"
INF = 10**6


class Ctx:
    """script for the registered trial method `verif`"""
    def __init__(self, seed, failing=()):
        self.lock = threading.Lock()
        self.count = 0
        self.failing = set(failing)
        self.tag2id = {}
        self.seed = seed
        self.log = {}
        self.events = []      # ("ran", k) | ("clock", t): serial-mode trace and the stop check's clock readings


class FakeTime:
    """virtual clock for cotengra.hyperoptimizers.hyper: one unit per trial run.  Readings made by the search loop's
    stop check are logged (relative to the first reading, which is the loop's t0)."""
    def __init__(self, ctx, sink):
        self.ctx, self.sink, self.t0 = ctx, sink, None

    def time(self):
        import sys
        now = float(self.ctx.count)
        if self.t0 is None:
            self.t0 = now
        if sys._getframe(1).f_code.co_name == "should_stop":
            self.sink.append(("clock", int(now - self.t0)))
        return now

    def sleep(self, dt):
        pass

    def __getattr__(self, name):
        import time as _t
        return getattr(_t, name)


CTX = None


def verif_trial(inputs, output, size_dict, tag=0):
    """a registered hyper method: the k-th invocation fails iff k is scripted to fail,
    otherwise returns a random (seeded by k) complete tree"""
    import cotengra as ct
    ctx = CTX
    with ctx.lock:
        ctx.count += 1
        k = ctx.count
        ctx.tag2id[tag] = k
        ctx.events.append(("ran", k))
    if k in ctx.failing:
        raise RuntimeError(f"scripted failure of trial {k}")
    rng = random.Random(ctx.seed * 1000 + k)
    n = len(inputs)
    path = []
    live = n
    while live > 1:
        i, j = sorted(rng.sample(range(live), 2))
        path.append((i, j))
        live -= 1
    return ct.ContractionTree.from_path(inputs, output, size_dict, path=path)


class FakeFuture:
    def __init__(self, pool, fid, value):
        self.pool, self.fid, self.value = pool, fid, value

    def done(self):
        return self.pool.is_done(self.fid)

    def result(self):
        self.pool.taken += 1
        self.pool.events.append(("report-taken", self.fid))
        return self.value

    def cancel(self):
        self.pool.cancelled.append(self.fid)


class FakePool:
    """done() follows the schedule: poll_sets[k] = trials whose worker finishes before the k-th poll"""
    _max_workers = 1

    def __init__(self, poll_sets):
        self.poll_sets = poll_sets
        self.taken = 0
        self.n = 0
        self.events = []
        self.cancelled = []
        self.spins = 0

    def submit(self, fn, *args, **kwargs):
        self.n += 1
        self.events.append(("submit", self.n))
        return FakeFuture(self, self.n, fn(*args, **kwargs))

    def is_done(self, fid):
        self.spins += 1
        if self.spins > 100000:
            raise core.Hang("optimizer polls forever although the schedule completed a future")
        allowed = set()
        for s in self.poll_sets[: self.taken + 1]:
            allowed |= s
        return fid in allowed


def schedules_from_tlc(run, quick, rng):
    res = mc.run_mc("MC_HyperOpt_gen", workers=1, module="MC_HyperOpt")
    run.tlc(res)
    out = []
    for v in res.verdicts:
        hist = v[1]
        sets, cur = [], set()
        for ev in hist:
            if ev[0] == "complete":
                cur.add(ev[1])
            elif ev[0] == "report":
                sets.append(cur)
                cur = set()
        out.append((sets, [e[1] for e in hist if e[0] == "report"]))
    run.extra["schedules_enumerated_by_tlc"] = len(out)
    return out


def batch_variants(rng, sched, M, P):
    """non-canonical schedules: several workers finish before a poll (the scan must
    still report the first in submission order)"""
    sets = [set(s) for s in sched]
    k = rng.randrange(len(sets) - 1)
    # move the completion of a later report earlier
    j = rng.randrange(k + 1, len(sets))
    moved = set(sets[j])
    # only legal if that trial is already submitted at poll k: submitted by then = min(M, P + k)
    if all(i <= min(M, P + k) for i in moved):
        sets[k] |= moved
        sets[j] = set()
    return sets


def draw_stop(rng, M):
    k = rng.choice(["equil", "equil", "time", "rate"])
    if k == "equil":
        return ["equil", rng.randrange(0, 4)]
    if k == "time":
        return ["time", rng.randrange(0, M + 1)]
    return ["rate", rng.choice([1e9, 1e3, 50.0, 1.0])]


POSTS = {
    "none": {},
    "slicing": {"slicing_opts": {"target_slices": 2}},
    "reconf": {"reconf_opts": {"subtree_size": 3, "maxiter": 4}},
    "slicing_reconf": {"slicing_reconf_opts": {"target_size": 4, "max_repeats": 4,
                                               "reconf_opts": {"subtree_size": 3, "maxiter": 2}}},
    "anneal": {"simulated_annealing_opts": {"tsteps": 2, "numiter": 3}},
    "reconf_forested": {"reconf_opts": {"forested": True, "num_trees": 2, "num_restarts": 1, "subtree_maxiter": 2,
                                         "subtree_size": 3}},
    "slicing_reconf_forested": {"slicing_reconf_opts": {"forested": True, "target_size": 4, "num_trees": 2, "max_repeats": 4,
                                                         "reconf_opts": {"subtree_size": 3, "maxiter": 2}}},
    "anneal_sliced": {"simulated_annealing_opts": {"tsteps": 2, "numiter": 3, "target_size": 4}},
    "slicing+reconf": {"slicing_opts": {"target_slices": 2}, "reconf_opts": {"subtree_size": 3, "maxiter": 3}},
}
OBJECTIVES = ["flops", "size", "write", "combo", "combo-256", "limit", "limit-8"]


def one_run(run, ct, net, mode, sets, failing, post, objective, seed, M, real_pool=None, optlib="random", methods=("verif",),
            stop=None):
    """returns (hyper case, snapshot case or None, desc).  stop: None | ["equil", n] | ["time", T] | ["rate", r]"""
    global CTX
    CTX = Ctx(seed, failing)
    desc = {"net": net.to_json(), "mode": mode, "schedule": [sorted(s) for s in sets] if sets else None,
            "failing": sorted(failing), "post": post, "objective": objective, "seed": seed, "M": M,
            "optlib": optlib, "methods": list(methods), "stop": stop}
    tags = {"mode:" + mode, "post:" + post, "objective:" + objective.split("-")[0],
            "objective-explicit-factor" if "-" in objective else "objective-default",
            "stop:" + (stop[0] if stop else "none")}
    max_time = None
    if stop:
        max_time = {"equil": f"equil:{stop[1]}", "time": stop[1], "rate": f"rate:{stop[1]}"}[stop[0]]
    if mode == "fake":
        pool = FakePool(sets)
        parallel = pool
    elif mode == "serial":
        pool, parallel = None, False
    else:
        pool, parallel = real_pool, real_pool
    # the tag space must stay small for samplers that materialise integer ranges (nevergrad)
    from cotengra.hyperoptimizers import hyper as _hy
    _hy.register_hyper_function("verif", verif_trial, {"tag": {"type": "INT", "min": 0, "max": 10**9 if optlib == "random" else 4000}})
    real_time = _hy.time
    if stop and mode in ("fake", "serial"):
        _hy.time = FakeTime(CTX, pool.events if mode == "fake" else CTX.events)
    opt = None
    try:
        with core.watchdog(180):
            opt = ct.HyperOptimizer(methods=list(methods), max_repeats=M, parallel=parallel, optlib=optlib,
                                    minimize=objective, on_trial_error="ignore", max_time=max_time, **POSTS[post])
            try:
                tree = opt.search(net.c_inputs(), net.c_output(), net.c_sizes())
            finally:
                _hy.time = real_time
    except core.Hang as e:
        run.violation(f"HyperOptimizer.search did not return ({e}) mode={mode} post={post} objective={objective}", desc,
                      tags=tags | {"hang"})
        return None
    except Exception as e:
        allfail = len(failing) >= M or (opt is not None and stop and all(x == float("inf") for x in opt.scores))
        if allfail:
            return None     # every trial failed: nothing to return (outside the statement)
        run.violation(f"HyperOptimizer.search raised {core.exc_text(e)} mode={mode} post={post} objective={objective} "
                      f"eq={net.eq()} failing={sorted(failing)}", desc, tags=tags | {"raised", type(e).__name__})
        return None
    # ---- trace for HyperOptJudge -------------------------------------------------
    ids = []
    for m_, p in zip(opt.method_choices, opt.param_choices):
        ids.append(CTX.tag2id.get(p.get("tag")) if m_ == "verif" else None)
    if mode == "serial" and "verif" in methods:
        # trials run and are reported one at a time: the k-th report is the k-th invocation (tags may repeat with
        # samplers that converge, so they are not used here)
        ids = list(range(1, len(opt.scores) + 1))
    if mode == "fake":
        events = []
        it = iter(ids)
        for ev in pool.events:
            if ev[0] == "submit":
                events.append(["submit", ev[1]])
            elif ev[0] == "clock":
                events.append(["clock", ev[1]])
            else:
                events.append(["report", next(it)])
        P = 5
    elif mode == "serial" and "verif" in methods:
        # one trial at a time: run k = submit k, report k, then (with a time rule) the stop check's clock reading
        events = []
        for ev in CTX.events:
            if ev[0] == "ran":
                if ev[1] <= len(opt.scores):
                    events += [["submit", ev[1]], ["report", ev[1]]]
                else:
                    events += [["submit", ev[1]]]     # ran but never recorded
            else:
                events.append(["clock", ev[1]])
        P = 1
    else:
        # serial / real pools: submissions are not observable from outside; the trace is the report order,
        # with every submission placed as early as the window allows (P = M: no window constraint checked)
        events = [["submit", i] for i in range(1, max(len(ids), M if stop else 0) + 1)] + [["report", i] for i in ids]
        P = max(M, 1)
    if any(i is None for i in ids):
        # real methods in a real pool: trial identity is not observable; the trace degenerates to the report count
        ids = list(range(1, len(ids) + 1))
        events = [["submit", i] for i in ids] + [["report", i] for i in ids]
    order = sorted(set(s for s in opt.scores if s != float("inf")))
    rank = {s: k + 1 for k, s in enumerate(order)}
    score = [INF] * max(len(ids), M)
    for i, s in zip(ids, opt.scores):
        score[i - 1] = rank.get(s, INF)
    best_id = 0
    if "tree" in opt.best:
        bp = opt.best.get("params", {})
        best_id = CTX.tag2id.get(bp.get("tag"), -1)
        if "verif" not in methods or mode == "serial":
            fin_ = [s for s in opt.scores if s != float("inf")]
            best_id = opt.scores.index(min(fin_)) + 1 if fin_ else 0
            if opt.best["score"] != min(fin_):
                best_id = -1
    rule, amount = "none", 0
    if stop:
        rule, amount = {"equil": ("equil", stop[1]), "time": ("time", stop[1]), "rate": ("any", 0)}[stop[0]]
        if mode not in ("fake", "serial") and rule == "time":
            rule = "any"      # real clock: the trace does not determine the stopping point
    hcase = {"M": M, "P": P, "events": events, "score": score, "Inf": INF, "best": best_id, "nscores": len(opt.scores),
             "rule": rule, "amount": int(amount)}
    # ---- figures of the winner vs the returned tree -------------------------------
    snap = None
    b = opt.best
    problems = []
    if tree is not b.get("tree"):
        problems.append("search() did not return opt.best['tree']")
    if tuple(map(tuple, tree.inputs)) != net.c_inputs() or tuple(tree.output) != net.c_output():
        problems.append("returned tree is not a tree of the queried contraction")
    st = tree.contract_stats()
    for k in ("flops", "write", "size"):
        if b.get(k) != st[k]:
            problems.append(f"recorded {k} of the winning trial {b.get(k)} != {st[k]} of the returned tree")
    fin = [s for s in opt.scores if s != float("inf")]
    if fin and b["score"] != min(fin):
        problems.append("best score is not the minimum over the trials")
    if len(opt.scores) > M or (CTX.count > M and "verif" in methods):
        problems.append(f"ran {CTX.count} trials / reported {len(opt.scores)} for max_repeats={M}")
    # figures recorded per trial: failed trials are inf, others equal an independent rebuild (no post-processing only)
    if post == "none" and "verif" in methods:
        for i, f_, w_, s_ in zip(ids, opt.costs_flops, opt.costs_write, opt.costs_size):
            if i in failing:
                if f_ != float("inf"):
                    problems.append(f"failed trial {i} has finite recorded cost")
                continue
            rng = random.Random(seed * 1000 + i)
            n = net.N
            path, live = [], n
            while live > 1:
                a, c_ = sorted(rng.sample(range(live), 2))
                path.append((a, c_))
                live -= 1
            ref = ct.ContractionTree.from_path(net.c_inputs(), net.c_output(), net.c_sizes(), path=path).contract_stats()
            if (f_, w_, s_) != (ref["flops"], ref["write"], ref["size"]):
                problems.append(f"trial {i}: recorded costs {(f_, w_, s_)} differ from the costs of the tree that trial built "
                                f"{(ref['flops'], ref['write'], ref['size'])} (another trial's result?)")
    # the path the optimizer hands out is the path of its best tree - also when the same object searches on (resume)
    try:
        if "tree" in b and tuple(map(tuple, opt.path)) != tuple(map(tuple, b["tree"].get_path())):
            problems.append("opt.path is not the path of the best tree")
        if mode == "serial" and "verif" in methods and not stop and "tree" in b and post == "none":
            p_again = opt(net.c_inputs(), net.c_output(), net.c_sizes())          # M more trials on the same object
            b2 = opt.best
            want = tuple(map(tuple, b2["tree"].get_path()))
            if tuple(map(tuple, p_again)) != want or tuple(map(tuple, opt.path)) != want:
                problems.append("after searching on with the same object, the path handed out is not the path of the best tree")
            fin2 = [x for x in opt.scores if x != float("inf")]
            if fin2 and b2["score"] != min(fin2):
                problems.append("after searching on with the same object, best score is not the minimum over all its trials")
            if len(opt.scores) != 2 * M:
                problems.append(f"after searching on: {len(opt.scores)} trials recorded for 2 x max_repeats={M}")
    except Exception as e:
        problems.append(f"opt.path / resumed search raised {core.exc_text(e)}")
    # the table of trials the optimizer reports (get_trials): one row per recorded trial, the winner among them
    try:
        finite_rows = None
        for srt in (None, "flops", "size", "write", "combo", "method"):
            if srt in ("flops", "size", "write", "combo") and any(x == float("inf") for x in opt.costs_flops):
                continue        # the sort keys take logarithms; failed trials are recorded as inf
            rows = opt.get_trials(sort=srt)
            if len(rows) != len(opt.scores):
                problems.append(f"get_trials(sort={srt}) lists {len(rows)} trials, {len(opt.scores)} were recorded")
                break
            key = sorted((r_[1], r_[2], r_[3]) for r_ in rows)
            if finite_rows is None:
                finite_rows = key
            elif key != finite_rows:
                problems.append(f"get_trials(sort={srt}) is not a permutation of the recorded trials")
                break
        if finite_rows is not None and "tree" in b and (b.get("size"), b.get("flops"), b.get("write")) not in finite_rows:
            problems.append("the winning trial's figures do not occur in get_trials()")
    except Exception as e:
        problems.append(f"get_trials raised {core.exc_text(e)}")
    for pmsg in problems:
        run.violation(f"{pmsg} | mode={mode} post={post} objective={objective} eq={net.eq()} failing={sorted(failing)} "
                      f"schedule={desc['schedule']}", desc, tags=tags | {"figures"})
    try:
        snap = observe.snapshot(net, tree, orders={"dfs": "dfs"})
        if observe.snapshot_max(snap) >= 2**31:
            snap = None
    except Exception as e:
        run.violation(f"returned tree cannot be queried: {core.exc_text(e)}", desc, tags=tags | {"raised"})
    return hcase, snap, desc, tags


def run(run):
    import cotengra as ct
    from cotengra.hyperoptimizers import hyper
    hyper.register_hyper_function("verif", verif_trial, {"tag": {"type": "INT", "min": 0, "max": 10**9}})
    rng = random.Random(run.seed * 6007 + 8)
    quick = run.tier == "quick"
    res = mc.run_mc("MC_HyperOpt_quick" if quick else "MC_HyperOpt", workers=8, module="MC_HyperOpt")
    run.tlc(res)
    run.extra["mc_instances"] = {("MC_HyperOpt_quick" if quick else "MC_HyperOpt"): {"states": res.distinct, "exhaustive": True}}
    # stopping rules: "equil" and "time"; and the wrong order (stop check before the comparison) must be refuted
    for nm in ["MC_HyperOpt_equil"] + ([] if quick else ["MC_HyperOpt_time"]):
        res = mc.run_mc(nm, workers=8, module="MC_HyperOpt")
        run.tlc(res)
        run.extra["mc_instances"][nm] = {"states": res.distinct, "exhaustive": True}
    try:
        mc.run_mc("MC_HyperOpt_checkfirst", workers=2, module="MC_HyperOpt", coverage=False)
        raise tla.MachineryError("negative instance MC_HyperOpt_checkfirst was not refuted (vacuity)")
    except tla.MachineryError as e:
        if "BestAtEnd" not in str(e):
            raise
        run.extra["mc_instances"]["MC_HyperOpt_checkfirst (negative)"] = {"violates": "BestAtEnd", "as_expected": True}
    scheds = schedules_from_tlc(run, quick, rng)
    pool_nets = [n for n in nets.net_pool(rng, 40, nmin=4, nmax=6, weird=False) if nets.connected(n) and n.K >= 3][:12]
    M = 7
    results = []
    chosen = scheds if not quick else rng.sample(scheds, 140)
    for sets, order in chosen:
        net = rng.choice(pool_nets)
        nf = rng.choice([0, 0, 1, 2])
        failing = set(rng.sample(range(1, M + 1), nf))
        post = rng.choice(list(POSTS)) if rng.random() < 0.5 else "none"
        objective = rng.choice(OBJECTIVES)
        if rng.random() < 0.3:
            sets = batch_variants(rng, sets, M, 5)
        stop = draw_stop(rng, M) if rng.random() < 0.35 else None
        r = one_run(run, ct, net, "fake", sets, failing, post, objective, rng.randrange(10**6), M, stop=stop)
        run.count()
        run.nontrivial(("fake", str(sets), str(sorted(failing)), post, objective, net.eq(), str(stop)))
        if r:
            results.append(r)
    # budgets smaller than the window of in-flight trials (max_repeats < pre_dispatch): exactly max_repeats trials are run
    for M_small in ((1, 2, 3, 4) if quick else (1, 1, 2, 2, 3, 3, 4, 4, 5, 6)):
        net = rng.choice(pool_nets)
        sets = [set(range(1, 12)) for _ in range(12)]        # every submitted trial is finished when polled
        r = one_run(run, ct, net, "fake", sets, set(), "none", rng.choice(OBJECTIVES[:4]), rng.randrange(10**6), M_small)
        run.count()
        run.nontrivial(("fake-small-budget", M_small, net.eq()))
        if r:
            results.append(r)
    # serial: every objective x post-processing set
    combos = [(o, p) for o in OBJECTIVES for p in POSTS]
    if quick:
        combos = rng.sample(combos, 14)
    for objective, post in combos:
        net = rng.choice(pool_nets)
        failing = set(rng.sample(range(1, 6), rng.choice([0, 1, 2])))
        r = one_run(run, ct, net, "serial", None, failing, post, objective, rng.randrange(10**6), 5)
        run.count()
        run.nontrivial(("serial", post, objective, net.eq(), str(sorted(failing))))
        if r:
            results.append(r)
    # serial with a stopping rule (HyperOpt!Check): the run ends exactly where the rule fires
    for _ in range(30 if quick else 300):
        net = rng.choice(pool_nets)
        M2 = rng.choice([6, 8, 10])
        failing = set(rng.sample(range(1, M2 + 1), rng.choice([0, 0, 1, 2])))
        stop = draw_stop(rng, M2)
        post = rng.choice(list(POSTS)) if rng.random() < 0.3 else "none"
        r = one_run(run, ct, net, "serial", None, failing, post, rng.choice(OBJECTIVES), rng.randrange(10**6), M2, stop=stop)
        run.count()
        run.nontrivial(("serial-stop", str(stop), post, net.eq(), str(sorted(failing))))
        if r:
            results.append(r)
    # real optimisation libraries and real methods, serial (report-dependent samplers)
    for optlib in (["cmaes"] if quick else ["cmaes", "nevergrad", "random"]):
        for _ in range(2 if quick else 6):
            net = rng.choice(pool_nets)
            r = one_run(run, ct, net, "serial", None, set(), rng.choice(list(POSTS)), rng.choice(["flops", "size", "combo"]),
                        rng.randrange(10**6), 6, optlib=optlib, methods=("verif",))
            run.count()
            if r:
                results.append(r)
    # real pools: threads and processes (B direction)
    from concurrent.futures import ThreadPoolExecutor
    with ThreadPoolExecutor(3) as tp:
        for _ in range(4 if quick else 30):
            net = rng.choice(pool_nets)
            failing = set(rng.sample(range(1, 9), rng.choice([0, 1])))
            stop = rng.choice([None, None, ["equil", 1], ["time", 0.0005], ["rate", 1e6]])
            r = one_run(run, ct, net, "threads", None, failing, rng.choice(["none", "reconf"]), rng.choice(OBJECTIVES[:4]),
                        rng.randrange(10**6), 8, real_pool=tp, stop=stop)
            run.count()
            run.nontrivial(("threads", net.eq(), str(sorted(failing))))
            if r:
                results.append(r)
    # real process pools (B direction, weak trace: submissions and completions are not observable)
    from concurrent.futures import ProcessPoolExecutor
    import multiprocessing
    with ProcessPoolExecutor(2, mp_context=multiprocessing.get_context("fork")) as pp:
        for _ in range(2 if quick else 12):
            net = rng.choice(pool_nets)
            r = one_run(run, ct, net, "processes", None, set(), rng.choice(["none", "reconf", "slicing"]),
                        rng.choice(OBJECTIVES), rng.randrange(10**6), 6, real_pool=pp, methods=("greedy", "random-greedy"))
            run.count()
            run.nontrivial(("processes", net.eq()))
            if r:
                results.append(r)
    for _ in range(1 if quick else 6):
        net = rng.choice(pool_nets)
        r = one_run(run, ct, net, "loky", None, set(), rng.choice(["none", "reconf"]), rng.choice(OBJECTIVES[:4]),
                    rng.randrange(10**6), 6, real_pool=2, methods=("greedy",))
        run.count()
        if r:
            results.append(r)
    compressed_runs(run, ct, rng, quick)
    from . import _repo
    _repo.run_repo_hyper(run, "c08")
    judge(run, results)
    run.cov["rule"] = ("schedules = report orders enumerated by TLC from HyperOpt.tla (7 trials, window 5; quick: 140 sampled, "
                       "thorough: all) forced on the real HyperOptimizer through a fake pool, x scripted failing trials x 5 "
                       "post-processing sets x 7 objectives; plus serial runs for every objective x post-processing set, real "
                       "optimisation libraries, real thread pools; distinct by (mode, schedule, failing set, options, network)")
    run.assumptions += ["process pools (loky / concurrent.futures) are exercised in the thorough tier only",
                        "trial identity is carried by a `tag` hyper-parameter of the scripted method `verif`"]


def compressed_runs(run, ct, rng, quick):
    """HyperCompressedOptimizer: the figures recorded for the winner are the compressed figures of the returned tree at the
    bond dimension in force - the given chi, or (chi=None) the square of the largest dimension OF THE NETWORK ASKED ABOUT.
    Networks with different largest dimensions are asked about one after the other in this process."""
    SIZEKEY = {"peak-compressed": "peak_size", "size-compressed": "max_size", "write-compressed": "write"}
    nets_small = [nets.ordinary_net(rng, n=rng.randint(4, 6), maxdim=2, n_out=rng.choice([0, 1]), hyper=False) for _ in range(3)]
    nets_big = [nets.ordinary_net(rng, n=rng.randint(4, 6), maxdim=4, n_out=rng.choice([0, 1]), hyper=False) for _ in range(3)]
    for _ in range(4 if quick else 40):
        seqn = [rng.choice(nets_small), rng.choice(nets_big)]
        rng.shuffle(seqn)
        mz = rng.choice(list(SIZEKEY))
        chi_opt = rng.choice([None, None, 4, 16])
        for net in seqn:
            d = {"net": net.to_json(), "minimize": mz, "chi": chi_opt, "mode": "compressed"}
            run.count()
            run.nontrivial(("compressed", net.eq(), str(net.dims), mz, chi_opt, rng.random()))
            try:
                with core.watchdog(180):
                    # (post-processing of the trials - annealing the compressed tree - must leave the COMPRESSED figures recorded)
                    post = rng.choice([{}, {}, {"simulated_annealing_opts": {"tsteps": 3, "numiter": 5, "seed": rng.randrange(1000)}},
                                       {"simulated_annealing_opts": {}}])
                    d["post"] = str(post)
                    opt = ct.HyperCompressedOptimizer(chi=chi_opt, minimize=mz, methods=["greedy-compressed", "greedy-span"],
                                                      max_repeats=3, parallel=False, optlib="random", on_trial_error="raise", **post)
                    tree = opt.search(net.c_inputs(), net.c_output(), net.c_sizes())
                    chi = chi_opt if chi_opt is not None else max(net.dims) ** 2
                    st = tree.compressed_contract_stats(chi=chi, compress_late=False)
            except Exception as e:
                run.violation(f"HyperCompressedOptimizer raised {core.exc_text(e)} eq={net.eq()} minimize={mz} chi={chi_opt}", d,
                              tags={"mode:compressed", "raised"})
                continue
            b = opt.best
            want = {"flops": st.flops, "write": st.write, "size": getattr(st, SIZEKEY[mz])}
            for k_, w_ in want.items():
                if b.get(k_) != w_:
                    run.violation(f"HyperCompressedOptimizer(chi={chi_opt}, minimize={mz}, {d.get('post')}): recorded {k_} of the winning trial "
                                  f"{b.get(k_)} != {w_} of the returned tree at chi={chi} | eq={net.eq()} dims={net.dims} "
                                  f"(networks asked about in this process before: {[n_.eq() for n_ in seqn[:seqn.index(net)]]})", d,
                                  tags={"mode:compressed", "figures"})
                    break
            fin = [x for x in opt.scores if x != float("inf")]
            if fin and b["score"] != min(fin):
                run.violation("HyperCompressedOptimizer: best score is not the minimum over the trials", d, tags={"mode:compressed", "figures"})


def judge(run, results):
    hcases = [r[0] for r in results]
    verdicts, hres = tla.judge_cases(f"c08_{run.tier}_h", "HyperOptJudge", hcases, chunk=400)
    for res in hres:
        run.tlc(res)
    run.cov["traces_validated_against_impl"] += len(hcases)
    for (hc, snap, desc, tags), v in zip(results, verdicts):
        if v[0] != "ok":
            run.violation(f"run rejected by HyperOptJudge: {v[0]} at event {v[1]} | mode={desc['mode']} post={desc['post']} "
                          f"objective={desc['objective']} schedule={desc['schedule']} failing={desc['failing']} events={hc['events']}",
                          desc, tags=tags | {v[0]})
        else:
            run.sample({"mode": desc["mode"], "schedule": desc["schedule"], "failing": desc["failing"], "post": desc["post"],
                        "objective": desc["objective"], "events": hc["events"], "best": hc["best"], "verdict": "ok"})
    snaps = [(r[1], r[2], r[3]) for r in results if r[1] is not None]
    sv, sres = tla.judge_cases(f"c08_{run.tier}_s", "SnapshotJudge", [s[0] for s in snaps], chunk=300)
    for res in sres:
        run.tlc(res)
    for (snap, desc, tags), v in zip(snaps, sv):
        if v[0] != "ok":
            run.violation(f"figures of the returned tree disagree with the definitions: {v[0]} | post={desc['post']} "
                          f"objective={desc['objective']} eq={desc['net']['eq']}", desc, tags=tags | {v[0], "snapshot"})
    run.extra["returned_trees_judged"] = len(snaps)


def replay(run, desc):
    import cotengra as ct
    from cotengra.hyperoptimizers import hyper
    hyper.register_hyper_function("verif", verif_trial, {"tag": {"type": "INT", "min": 0, "max": 10**9}})
    net = nets.Net.from_json(desc["net"])
    sets = [set(s) for s in desc["schedule"]] if desc.get("schedule") else None
    mode = desc["mode"] if desc["mode"] in ("fake", "serial") else "serial"
    r = one_run(run, ct, net, mode, sets, set(desc["failing"]), desc["post"], desc["objective"], desc["seed"], desc["M"],
                optlib=desc.get("optlib", "random"), methods=tuple(desc.get("methods", ["verif"])), stop=desc.get("stop"))
    run.count()
    if r:
        judge(run, [r])
