"""C10 - path formats convert into each other and into trees without loss.

Design level: MC_Paths (TLC generates every pairwise linear path for N <= 5 with
the linear machine itself and checks the converter round-trip theorems).
Binding A: TLC emits every such path; the harness feeds each to the real
converters / tree constructors / emitters and TLC (PathJudge) compares the
results with the spec functions: exact for converters and edge paths, legality
+ same node set for order-dependent emissions.
"""
import itertools
import random

from .. import core, nets, observe, tla, mc

LEVEL = "model_checking"


def ch0(tree):
    return [[frozenset(p), frozenset(l), frozenset(r)] for p, (l, r) in tree.children.items()]


def sets0(x):
    return frozenset(int(i) for i in x)


def paths_from_tlc(run, maxn):
    res = mc.run_mc("MC_Paths_emit", workers=1, module="MC_Paths")
    run.tlc(res)
    out = []
    for v in res.verdicts:
        n, path = v[0], v[1]
        if n <= maxn:
            out.append((n, [tuple(p) for p in path]))
    return out


def net_for(rng, n):
    for _ in range(100):
        net = nets.rand_net(rng, n=n, k=rng.randint(max(1, n - 1), n + 2), weird=True)
        if net.N == n:
            return net
    raise RuntimeError


def run(run):
    import cotengra as ct
    from cotengra.pathfinders import path_basic as pb
    rng = random.Random(run.seed * 3001 + 10)
    quick = run.tier == "quick"
    res = mc.run_mc("MC_Paths", workers=4)
    run.tlc(res)
    run.extra["mc_instances"] = {"MC_Paths": {"states": res.distinct, "exhaustive": True, "MaxN": 5}}
    paths = paths_from_tlc(run, 5)
    run.extra["paths_emitted_by_tlc"] = len(paths)
    if quick:
        small = [p for p in paths if p[0] <= 4]
        big = [p for p in paths if p[0] == 5]
        paths = small + rng.sample(big, 40)
    cases, descs = [], []

    def add(case, desc):
        cases.append(case)
        descs.append(desc)

    nets_by_n = {}
    for n, path in paths:
        net = nets_by_n.setdefault(n, [net_for(rng, n) for _ in range(3)])[rng.randrange(3)]
        d0 = {"N": n, "path": [list(p) for p in path], "net": net.to_json()}
        try:
            with core.watchdog(60):
                ssa = pb.linear_to_ssa(path, n)
                add({"kind": "lin2ssa", "N": n, "path": path, "got": [list(s) for s in ssa]}, dict(d0, api="linear_to_ssa"))
                ssa2 = pb.linear_to_ssa(path)   # N inferred
                add({"kind": "lin2ssa", "N": n, "path": path, "got": [list(s) for s in ssa2]}, dict(d0, api="linear_to_ssa(N=None)"))
                lin = pb.ssa_to_linear(ssa, n)
                add({"kind": "ssa2lin", "N": n, "path": [list(s) for s in ssa], "got": [list(s) for s in lin]},
                    dict(d0, api="ssa_to_linear"))
                lin2 = pb.ssa_to_linear(ssa)
                add({"kind": "ssa2lin", "N": n, "path": [list(s) for s in ssa], "got": [list(s) for s in lin2]},
                    dict(d0, api="ssa_to_linear(N=None)"))
                t1 = ct.ContractionTree.from_path(net.c_inputs(), net.c_output(), net.c_sizes(), path=path)
                add({"kind": "from_lin", "N": n, "path": path, "ch": ch0(t1)}, dict(d0, api="from_path(path=)"))
                t2 = ct.ContractionTree.from_path(net.c_inputs(), net.c_output(), net.c_sizes(), ssa_path=ssa)
                add({"kind": "from_ssa", "N": n, "path": [list(s) for s in ssa], "ch": ch0(t2)}, dict(d0, api="from_path(ssa_path=)"))
                orders = observe.order_fns(rng)
                if ct.__dict__.get("ContractionTree"):
                    t1.compute_centralities() if False else None
                for oname, o in orders.items():
                    add({"kind": "emit_lin", "N": n, "ch": ch0(t1), "path": [list(s) for s in t1.get_path(order=o)]},
                        dict(d0, api=f"get_path(order={oname})"))
                    add({"kind": "emit_ssa", "N": n, "ch": ch0(t1), "path": [list(s) for s in t1.get_ssa_path(order=o)]},
                        dict(d0, api=f"get_ssa_path(order={oname})"))
                # the surface-order emitters and the old aliases of all four emitters
                import warnings as _w
                with _w.catch_warnings():
                    _w.simplefilter("ignore")
                    for nm_, kind_, fn_ in (("get_path_surface", "emit_lin", t1.get_path_surface),
                                            ("get_ssa_path_surface", "emit_ssa", t1.get_ssa_path_surface),
                                            ("path (alias)", "emit_lin", t1.path), ("ssa_path (alias)", "emit_ssa", t1.ssa_path),
                                            ("path_surface (alias)", "emit_lin", t1.path_surface),
                                            ("ssa_path_surface (alias)", "emit_ssa", t1.ssa_path_surface)):
                        add({"kind": kind_, "N": n, "ch": ch0(t1), "path": [list(s_) for s_ in fn_()]}, dict(d0, api=nm_))
                np_path = t1.get_numpy_path()
                add({"kind": "emit_lin", "N": n, "ch": ch0(t1), "path": [list(s) for s in np_path[1:]]},
                    dict(d0, api="get_numpy_path"))
                # round trip through the tree: path -> tree -> path -> tree
                t3 = ct.ContractionTree.from_path(net.c_inputs(), net.c_output(), net.c_sizes(), path=t1.get_path())
                add({"kind": "from_lin", "N": n, "path": path, "ch": ch0(t3)}, dict(d0, api="from_path(get_path())"))
                # get_subtree: the local neighbourhoods subtree reconfiguration works on
                for _ in range(2):
                    node = rng.choice(list(t1.children))
                    size = rng.randint(2, n)
                    search = rng.choice(["bfs", "dfs", "random"])
                    sl, br = t1.get_subtree(node, size, search=search, seed=rng.randrange(100))
                    add({"kind": "subtree", "N": n, "ch": ch0(t1), "node": frozenset(node), "size": size,
                         "leaves": {frozenset(x) for x in sl}, "branches": {frozenset(x) for x in br}},
                        dict(d0, api=f"get_subtree(size={size}, search={search})"))
                # flat_tree: nested tuples must denote the same node set
                ft = t1.flat_tree()
                nodes = set()

                def walk(x):
                    if isinstance(x, int):
                        return frozenset([x])
                    s = walk(x[0]) | walk(x[1])
                    nodes.add(s)
                    return s
                walk(ft)
                if nodes != set(map(frozenset, t1.children)):
                    run.violation(f"flat_tree denotes a different tree for path {path}", dict(d0, api="flat_tree"), tags=["flat_tree"])
        except Exception as e:
            run.violation(f"conversion raised {core.exc_text(e)} on path {path} (N={n})", d0, tags=["raised"])
    # general paths (single-tensor and three-way steps), emitted by TLC from MC_PathsGen
    res = mc.run_mc("MC_PathsGen", workers=4)
    run.tlc(res)
    run.extra["mc_instances"]["MC_PathsGen"] = {"states": res.distinct, "exhaustive": True, "MaxN": 4, "MaxSingles": 2}
    res = mc.run_mc("MC_PathsGen_emit", workers=1, module="MC_PathsGen")
    run.tlc(res)
    gpaths = [(v[0], [tuple(p) for p in v[1]]) for v in res.verdicts]
    run.extra["general_paths_emitted_by_tlc"] = len(gpaths)
    if quick:
        gpaths = rng.sample(gpaths, 500)
    for n, path in gpaths:
        net = nets_by_n.setdefault(n, [net_for(rng, n) for _ in range(3)])[rng.randrange(3)]
        d0 = {"N": n, "path": [list(p) for p in path], "net": net.to_json()}
        multi = any(len(p) > 2 for p in path)
        try:
            with core.watchdog(60):
                ssa = pb.linear_to_ssa(path, n)
                add({"kind": "lin2ssa", "N": n, "path": path, "got": [list(s) for s in ssa]}, dict(d0, api="linear_to_ssa (general)"))
                lin = pb.ssa_to_linear(ssa, n)
                add({"kind": "ssa2lin", "N": n, "path": [list(s) for s in ssa], "got": [list(s) for s in lin]},
                    dict(d0, api="ssa_to_linear (general)"))
                t1 = ct.ContractionTree.from_path(net.c_inputs(), net.c_output(), net.c_sizes(), path=path)
                add({"kind": "from_lin_multi" if multi else "from_lin", "N": n, "path": path, "ch": ch0(t1)},
                    dict(d0, api="from_path(path=) (general)"))
                t2 = ct.ContractionTree.from_path(net.c_inputs(), net.c_output(), net.c_sizes(), ssa_path=ssa)
                add({"kind": "from_ssa_multi" if multi else "from_ssa", "N": n, "path": [list(s) for s in ssa], "ch": ch0(t2)},
                    dict(d0, api="from_path(ssa_path=) (general)"))
                if not multi and {frozenset(x) for x in t1.children} != {frozenset(x) for x in t2.children}:
                    run.violation(f"from_path(path=P) and from_path(ssa_path=linear_to_ssa(P)) give different trees for {path}", d0,
                                  tags=["lin-vs-ssa"])
        except Exception as e:
            run.violation(f"conversion raised {core.exc_text(e)} on general path {path} (N={n})", d0, tags=["raised"])
    # edge paths: every permutation of the indices of small networks
    pool = [n_ for n_ in nets.net_pool(rng, 14 if quick else 60, nmin=2, nmax=5) if 1 <= n_.K <= 5]
    # structured members: a hyper index whose carriers also share ordinary bonds; an output (batch) index on several
    # tensors; a hyper output index - the cases in which visiting an index merges more or fewer tensors than a bond would
    pool += [nets.Net([[1, 2], [1, 2, 4], [2, 3], [3, 4]], [], [2, 2, 2, 2], kind="hyper+bonds"),
             nets.Net([[1, 2], [1, 3], [2, 4], [3, 4]], [1], [2, 2, 2, 2], kind="batch-output"),
             nets.Net([[1, 2], [1, 3], [1, 2, 3]], [1], [2, 2, 2], kind="hyper-output"),
             nets.Net([[1, 2, 5], [1, 3], [2, 3, 4], [4, 5]], [5], [2, 2, 2, 2, 2], kind="output-on-two")]
    nperm = 0
    for net in pool:
        perms = list(itertools.permutations(range(1, net.K + 1)))
        if quick and len(perms) > 24:
            perms = rng.sample(perms, 24)
        for perm in perms:
            nperm += 1
            ep = [net.lab[ix] for ix in perm]
            d0 = {"net": net.to_json(), "edge_path": list(perm)}
            try:
                with core.watchdog(60):
                    ssa = pb.edge_path_to_ssa(ep, net.c_inputs())
                    add({"kind": "edge", "inputs": [frozenset(t) for t in net.inputs], "epath": list(perm),
                         "got": [list(s) for s in ssa]}, dict(d0, api="edge_path_to_ssa"))
                    lin = pb.edge_path_to_linear(ep, net.c_inputs())
                    exp_lin = pb.ssa_to_linear(ssa, net.N)
                    if [sorted(x) for x in lin] != [sorted(x) for x in exp_lin]:
                        run.violation("edge_path_to_linear disagrees with ssa_to_linear(edge_path_to_ssa)", d0, tags=["edge-linear"])
                    tr = ct.ContractionTree.from_path(net.c_inputs(), net.c_output(), net.c_sizes(), edge_path=ep,
                                                      autocomplete=True)
                    # the tree built from the edge path must contain every node the (spec-checked) ssa form denotes
                    live = net.N
                    for st_ in ssa:
                        live -= len(st_) - 1
                    if live == 1:
                        add({"kind": "from_ssa_multi", "N": net.N, "path": [list(s_) for s_ in ssa], "ch": ch0(tr)},
                            dict(d0, api="from_path(edge_path=) vs edge_path_to_ssa"))
                    else:
                        add({"kind": "tree", "N": net.N, "ch": ch0(tr)}, dict(d0, api="from_path(edge_path=)"))
                    tr2 = ct.array_contract_tree(net.c_inputs(), net.c_output(), net.c_sizes(), optimize=tuple(ep), canonicalize=False)
                    if live == 1 and {frozenset(x) for x in tr2.children} != {frozenset(x) for x in tr.children} and \
                            all(len(st_) == 2 for st_ in ssa):
                        run.violation("array_contract_tree(optimize=<edge path>) and from_path(edge_path=) build different trees", d0,
                                      tags=["edge-tree-routes"])
            except Exception as e:
                run.violation(f"edge path API raised {core.exc_text(e)} eq={net.eq()} edge_path={perm}", d0, tags=["raised"])
    run.extra["edge_permutations"] = nperm
    judge(run, cases, descs)
    run.cov["exhaustive"] = not quick
    # the public conversion of an explicit path handed in as `optimize` (linear -> itself, edge path -> linear) must not depend
    # on which kind of explicit path this process converted before (driver shared with C13)
    from . import c13
    c13.dispatch_memo(run, ct, rng, 8 if quick else 80)
    run.cov["rule"] = ("every pairwise linear path for N<=5 (emitted by TLC from MC_Paths; quick: all N<=4 + 40 of N=5) and every path "
                       "with single-tensor / three-way steps for N<=4 (MC_PathsGen; quick: 500 sampled) x converters, "
                       "tree constructors and emitters under 7 traversal orders; every permutation of the indices (<=5) of small "
                       "networks as edge path; distinct by (kind, api, input)")


def judge(run, cases, descs):
    verdicts, results = tla.judge_cases(f"c10_{run.tier}", "PathJudge", cases, chunk=500)
    for res in results:
        run.tlc(res)
    run.cov["traces_validated_against_impl"] += len(cases)
    for case, desc, v in zip(cases, descs, verdicts):
        run.count()
        run.nontrivial((case["kind"], desc.get("api"), str(desc.get("path") or desc.get("edge_path")), desc.get("net", {}).get("eq")))
        if v[0] != "ok":
            run.violation(f"{desc.get('api')}: {v[0]} on {desc.get('path') or desc.get('edge_path')} "
                          f"(eq={desc.get('net', {}).get('eq')}) got={case.get('got') or case.get('path')}",
                          dict(desc, case_kind=case["kind"]), tags=[v[0], case["kind"]])
        else:
            run.sample({"api": desc.get("api"), "input": desc.get("path") or desc.get("edge_path"),
                        "result": case.get("got") or case.get("path"), "verdict": "ok"}, cap=8)


def replay(run, desc):
    raise tla.MachineryError("C10 replay: rerun ./check C10 (cases are enumerated exhaustively and deterministic)")
