"""C07 - the slice finder's predicted costs are real and its targets are honoured.

Design level: MC_SliceFinder_* (trial loop with nondeterministic index choice:
forbidden indices never chosen, overhead limit never broken by the accepted
set, stop conditions) and the exactness of the incremental //d rule
(SizeFactor / FlopsFactor in MC_Tree).  Binding B: for random trees (fresh,
already sliced, after annealing / reconfiguration), target kinds and values,
allow_outer, objectives, temperatures, seeds: the finder's whole public cache
`sf.costs`, the returned pair, and the figures of the tree really sliced on the
returned indices are judged by TLC (SliceFinderJudge).
"""
import random
from fractions import Fraction

from .. import core, nets, observe, tla, mc

LEVEL = "model_checking"


def draw_targets(rng, size0, kind=None):
    kind = kind or rng.choice(["size", "slices", "overhead", "size+overhead"])
    kw = {}
    if "size" in kind:
        kw["target_size"] = max(1, size0 // rng.choice([2, 3, 4, 8]))
    if kind == "slices":
        kw["target_slices"] = rng.choice([2, 3, 4, 6, 9])
    if "overhead" in kind:
        kw["target_overhead"] = rng.choice([1.0, 1.25, 1.5, 2.0, 3.0])
    return kw


def forbidden_of(net, allow_outer):
    """the forbidden set per the statement (NOT the finder's own attribute): output indices when outer slicing is
    disallowed, everything but the output indices for allow_outer='only'"""
    outs = set(net.output)
    return set() if allow_outer is True else (outs if allow_outer is False else set(range(1, net.K + 1)) - outs)


def tover_of(kw):
    fo = Fraction(kw["target_overhead"]).limit_denominator(100) if kw.get("target_overhead") is not None else None
    return [fo.numerator, fo.denominator] if fo else [0, 0]


def finder_case(run, net, tree0, sf, ix_sl, cost, eff, allow_outer, d, after={-1}):
    """one SliceFinderJudge case from a finished search: the whole cache, the returned entry, the really sliced tree.
    `eff` are the targets in force for that search (constructor values overridden by per-call values)."""
    inv = net._inv()
    sl0 = {inv[i] for i in tree0.sliced_inds}
    entries = []
    keys = list(sf.costs)
    for X in keys:
        c_ = sf.costs[X]
        entries.append({"X": {inv[i] for i in X}, "size": int(c_.size), "flops": int(c_.flops), "nslices": int(c_.nslices)})
    ret = keys.index(ix_sl)
    if cost is not sf.costs[ix_sl]:
        run.violation("search() returned a cost object that is not the cached entry of the returned index set", d, tags={"api"})
    real_tree = tree0.copy()
    try:
        for ix in ix_sl:
            real_tree.remove_ind_(ix)
        st = real_tree.contract_stats()
        real = {"size": int(st["size"]), "flops": int(st["flops"]), "mult": int(real_tree.multiplicity)}
    except Exception as e:
        run.violation(f"returned indices cannot be removed from the tree: {core.exc_text(e)} indices={sorted(ix_sl)} "
                      f"already sliced={list(tree0.sliced_inds)}", d, tags={"returned-indices-invalid"})
        return None
    case = {"kind": "finder", "net": net.tla(), "ch": observe.children_of(tree0), "sl0": sl0, "mult0": int(tree0.multiplicity),
            "forbidden": forbidden_of(net, allow_outer), "tsize": int(eff.get("target_size") or 0),
            "tslices": int(eff.get("target_slices") or 0), "tover": tover_of(eff),
            "entries": entries, "ret": ret + 1, "real": real, "after": after, "reslice": False}
    big = max([real["flops"]] + [e["flops"] * e["nslices"] * 100 for e in entries])
    if big >= 2**31:
        return None
    return ("case", case, d)


def one(run, ct, rng, net, quick):
    """returns a list of ("case", case, desc) | ("raised", text, desc)"""
    from cotengra.slicer import SliceFinder
    out = []
    tree0 = observe.build_tree(ct, net, nets.tree_to_ssa(nets.rand_tree(rng, net.N), net.N, rng))
    prep = rng.choice(["fresh", "fresh", "sliced", "sliced2", "anneal", "reconf"])
    if prep.startswith("sliced") and net.K >= 2:
        for ix in rng.sample(range(1, net.K + 1), min(net.K - 1, 1 if prep == "sliced" else 2)):
            tree0.remove_ind_(net.lab[ix])
    elif prep == "anneal":
        tree0.simulated_anneal_(tsteps=2, numiter=3, seed=rng.randrange(100))
    elif prep == "reconf":
        tree0.subtree_reconfigure_(subtree_size=3, maxiter=3)
    size0 = tree0.max_size()
    kw = draw_targets(rng, size0)
    allow_outer = rng.choice([True, True, False, "only"])
    minimize = rng.choice(["flops", "size", "write", "combo", "limit"])
    temperature = rng.choice([0.0001, 0.01, 0.5, 2.0])
    seed = rng.randrange(10**6)
    repeats = rng.choice([1, 4, 16])
    d = {"net": net.to_json(), "prep": prep, "targets": kw, "allow_outer": allow_outer, "minimize": minimize,
         "temperature": temperature, "seed": seed, "repeats": repeats, "path": [list(p) for p in tree0.get_path()],
         "pre_sliced": list(tree0.sliced_inds), "call": "search"}
    inv = net._inv()
    sl0 = {inv[i] for i in tree0.sliced_inds}
    forbidden_spec = forbidden_of(net, allow_outer)
    # ---- (1) the finder, targets given to the constructor --------------------------------------------------
    ix_sl = None
    try:
        with core.watchdog(120):
            sf = SliceFinder(tree0, temperature=temperature, minimize=minimize, allow_outer=allow_outer, seed=seed, **kw)
            ix_sl, cost = sf.search(repeats)
    except core.Hang:
        raise
    except Exception as e:
        out.append(("raised", core.exc_text(e), d))
    if ix_sl is not None:
        # tree.slice(...) with the same arguments: post-condition on the sliced set
        after = {-1}
        try:
            t2 = tree0.slice(temperature=temperature, minimize=minimize, allow_outer=allow_outer, seed=seed,
                             max_repeats=repeats, **kw)
            after2 = {inv[i] for i in t2.sliced_inds}
            if not (sl0 <= after2) or (after2 & forbidden_spec) - sl0:
                run.violation(f"tree.slice result lost a sliced index or sliced a forbidden one: before={sorted(sl0)} after={sorted(after2)}",
                              d, tags={"slice-postcondition"})
            if sorted(t2.sliced_inds) == sorted(set(tree0.sliced_inds) | set(ix_sl)):
                after = after2
        except Exception:
            pass
        r = finder_case(run, net, tree0, sf, ix_sl, cost, kw, allow_outer, d, after)
        if r:
            out.append(r)
        # best(k=...): the k best cached slicings - each of them is "returned" and must honour the targets; the first is best()
        if rng.random() < 0.5:
            try:
                topk = sf.best(k=rng.randint(2, 4))
                if topk and frozenset(topk[0][0]) != frozenset(ix_sl):
                    run.violation(f"best(k)[0] = {sorted(topk[0][0])} differs from best() = {sorted(ix_sl)}", d, tags={"api", "best-k"})
                for ixk, costk in topk[1:]:
                    rk = finder_case(run, net, tree0, sf, ixk, costk, kw, allow_outer, dict(d, call="best-k"))
                    if rk:
                        out.append(rk)
            except core.Hang:
                raise
            except Exception as e:
                out.append(("raised", core.exc_text(e), dict(d, call="best-k")))
    # ---- (2) targets overridden per call: search(target_...=) / trial(...) + best(...) -----------------------
    if rng.random() < 0.6:
        ctor = draw_targets(rng, size0)
        over = draw_targets(rng, size0)
        if rng.random() < 0.5:      # override a kind the constructor set, with another value
            k_ = rng.choice(list(ctor))
            over = {k_: (draw_targets(rng, size0, {"target_size": "size", "target_slices": "slices",
                                                   "target_overhead": "overhead"}[k_]))[k_]}
        eff = dict(ctor)
        eff.update(over)
        d2 = dict(d, targets=eff, ctor_targets=ctor, call_targets=over, call=rng.choice(["search-override", "trial-best-override"]))
        try:
            with core.watchdog(120):
                sf2 = SliceFinder(tree0, temperature=temperature, minimize=minimize, allow_outer=allow_outer, seed=seed, **ctor)
                if d2["call"] == "search-override":
                    ix2, cost2 = sf2.search(repeats, **over)
                else:
                    for _ in range(repeats):
                        sf2.trial(**over)
                    ix2, cost2 = sf2.best(**over)
            r = finder_case(run, net, tree0, sf2, ix2, cost2, eff, allow_outer, d2)
            if r:
                out.append(r)
        except core.Hang:
            raise
        except Exception as e:
            out.append(("raised", core.exc_text(e), d2))
    # ---- (3) tree.slice / slice_ with reslice, in place or not, judged by the postcondition alone -------------
    if rng.random() < 0.6:
        kw3 = draw_targets(rng, size0)
        reslice = rng.random() < 0.6
        inplace = rng.random() < 0.5
        d3 = dict(d, targets=kw3, call="slice", reslice=reslice, inplace=inplace)
        try:
            with core.watchdog(120):
                src = tree0.copy()
                t3 = src.slice(temperature=temperature, minimize=minimize, allow_outer=allow_outer, seed=seed,
                               max_repeats=repeats, reslice=reslice, inplace=inplace, **kw3)
            if inplace and t3 is not src:
                run.violation("slice(inplace=True) returned another object", d3, tags={"api"})
            if not inplace and sorted(src.sliced_inds) != sorted(tree0.sliced_inds):
                run.violation("slice(inplace=False) changed the sliced indices of the tree it was called on", d3, tags={"api", "aliasing"})
            case = {"kind": "slice", "net": net.tla(), "ch": observe.children_of(t3), "sl0": sl0, "mult0": int(tree0.multiplicity),
                    "forbidden": forbidden_spec, "tsize": int(kw3.get("target_size") or 0),
                    "tslices": int(kw3.get("target_slices") or 0), "tover": tover_of(kw3), "entries": [], "ret": 0,
                    "real": {"size": 0, "flops": 0, "mult": 0}, "after": {inv[i] for i in t3.sliced_inds}, "reslice": reslice}
            st3 = t3.contract_stats()
            if st3["flops"] * 100 < 2**31:
                out.append(("case", case, d3))
        except core.Hang:
            raise
        except Exception as e:
            out.append(("raised", core.exc_text(e), d3))
    # ---- (4) the drivers that slice and reconfigure in turn: the target and the forbidden set hold on what they return ------
    if rng.random() < 0.35:
        tgt = max(1, size0 // rng.choice([2, 4]))
        forest = rng.random() < 0.5
        d4 = dict(d, targets={"target_size": tgt}, call="slice_and_reconfigure_forest" if forest else "slice_and_reconfigure",
                  reslice=False, inplace=False)
        try:
            with core.watchdog(120):
                src = tree0.copy()
                if forest:
                    t4 = src.slice_and_reconfigure_forest(tgt, num_trees=2, max_repeats=4, parallel=False, allow_outer=allow_outer,
                                                          minimize=minimize, reconf_opts={"subtree_size": 3, "maxiter": 2})
                else:
                    t4 = src.slice_and_reconfigure(tgt, max_repeats=4, allow_outer=allow_outer, minimize=minimize,
                                                   reconf_opts={"subtree_size": 3, "maxiter": 2})
            case = {"kind": "slice", "net": net.tla(), "ch": observe.children_of(t4), "sl0": sl0, "mult0": int(tree0.multiplicity),
                    "forbidden": forbidden_spec, "tsize": int(tgt), "tslices": 0, "tover": [0, 0], "entries": [], "ret": 0,
                    "real": {"size": 0, "flops": 0, "mult": 0}, "after": {inv[i] for i in t4.sliced_inds}, "reslice": False}
            if t4.contract_stats()["flops"] * 100 < 2**31:
                out.append(("case", case, d4))
        except core.Hang:
            raise
        except Exception as e:
            out.append(("raised", core.exc_text(e), d4))
    return out


def run(run):
    import cotengra as ct
    rng = random.Random(run.seed * 11003 + 7)
    quick = run.tier == "quick"
    run.extra["mc_instances"] = {}
    for nm in ("MC_SliceFinder_size", "MC_SliceFinder_slices", "MC_SliceFinder_over"):
        res = mc.run_mc(nm, workers=1, module="MC_SliceFinder")
        run.tlc(res)
        run.extra["mc_instances"][nm] = {"states": res.distinct, "exhaustive": True}
    pool = [nets.ordinary_net(rng, n=rng.randint(3, 6), maxdim=3, n_out=rng.choice([0, 1, 2, 3])) for _ in range(12 if quick else 60)]
    pool += [n for n in nets.net_pool(rng, 10 if quick else 40, nmin=3, nmax=6) if n.K >= 2]
    cases, descs = [], []
    raised = 0
    n = 320 if quick else 6000
    for _ in range(n):
        net = rng.choice(pool)
        for r in one(run, ct, rng, net, quick):
            run.count()
            if r[0] == "raised":
                raised += 1
                continue
            cases.append(r[1])
            descs.append(r[2])
            run.nontrivial((net.eq(), str(r[2]["path"]), str(r[2]["targets"]), str(r[2]["allow_outer"]), r[2]["minimize"], r[2]["seed"],
                            r[2]["call"], str(r[2].get("reslice")), str(r[2].get("inplace"))))
    # ---- larger regular networks through the slice-and-reconfigure drivers with a whole forest: a round may leave the trees of
    # the forest at different largest intermediates, what is handed back must itself honour the target
    from .. import repotrace
    for sd in range(10 if quick else 120):
        for d_max in (3, 4):
            for div in (3, 6):
                tree0 = ct.utils.rand_tree(12, 3, seed=sd, d_max=d_max, optimize="greedy")
                net = repotrace.net_of(tree0)
                tgt = max(tree0.max_size() // div, 1)
                forest = (sd + div) % 4 != 0
                d5 = {"net": net.to_json(), "path": [list(p) for p in tree0.get_path()], "targets": {"target_size": int(tgt)},
                      "allow_outer": True, "minimize": "flops", "seed": sd, "prep": "rand_tree(12, 3)", "pre_sliced": [],
                      "call": "slice_and_reconfigure_forest(num_trees=4)" if forest else "slice_and_reconfigure", "reslice": False, "inplace": False}
                run.count()
                try:
                    with core.watchdog(180):
                        random.seed(7 + sd)      # (the slice searches inside draw from the global generator)
                        if forest:
                            t5 = tree0.slice_and_reconfigure_forest(tgt, num_trees=4, parallel=False)
                        else:
                            t5 = tree0.slice_and_reconfigure(tgt)
                    if t5.contract_stats()["flops"] * 100 >= 2**31 or tree0.contract_stats()["flops"] * 100 >= 2**31:
                        continue
                    inv5 = net._inv()
                    cases.append({"kind": "slice", "net": net.tla(), "ch": observe.children_of(t5), "sl0": set(), "mult0": 1,
                                  "forbidden": set(), "tsize": int(tgt), "tslices": 0, "tover": [0, 0], "entries": [], "ret": 0,
                                  "real": {"size": 0, "flops": 0, "mult": 0}, "after": {inv5[i] for i in t5.sliced_inds}, "reslice": False})
                    descs.append(d5)
                    run.nontrivial(("forest", sd, d_max, div))
                except core.Hang:
                    raise
                except Exception:
                    raised += 1
    run.extra["searches_that_raised_not_judged"] = raised
    verdicts, results = tla.judge_cases(f"c07_{run.tier}", "SliceFinderJudge", cases, chunk=200)
    for res in results:
        run.tlc(res)
    run.cov["traces_validated_against_impl"] += len(cases)
    for case, d, v in zip(cases, descs, verdicts):
        if case["kind"] == "slice":
            if v[0] != "ok":
                run.violation(f"tree.{d['call']}(reslice={d['reslice']}, inplace={d['inplace']}): {v[0]} ({v[1]}) sliced before={sorted(case['sl0'])} "
                              f"after={sorted(case['after'])} targets={d['targets']} allow_outer={d['allow_outer']} eq={d['net']['eq']} "
                              f"dims={d['net']['dims']} path={d['path']}", d, tags={v[0], "prep:" + d["prep"], "call:slice"})
            continue
        if v[0] != "ok":
            r = case["entries"][case["ret"] - 1]
            run.violation(f"slice finder ({d['call']}): {v[0]} ({v[1]}) returned={sorted(r['X'])} predicted size={r['size']} flops/slice={r['flops']} "
                          f"nslices={r['nslices']} real={case['real']} targets={d['targets']} (constructor {d.get('ctor_targets')}, "
                          f"per call {d.get('call_targets')}) allow_outer={d['allow_outer']} "
                          f"eq={d['net']['eq']} dims={d['net']['dims']} path={d['path']} pre_sliced={d['pre_sliced']}", d,
                          tags={v[0], "prep:" + d["prep"], "call:" + d["call"]})
        else:
            r = case["entries"][case["ret"] - 1]
            run.sample({"eq": d["net"]["eq"], "dims": d["net"]["dims"], "path": d["path"], "prep": d["prep"], "targets": d["targets"],
                        "allow_outer": d["allow_outer"], "minimize": d["minimize"], "returned": sorted(r["X"]),
                        "predicted": {k: r[k] for k in ("size", "flops", "nslices")}, "real": case["real"],
                        "cache_entries_judged": len(case["entries"])})
    run.extra["cache_entries_judged"] = sum(len(c["entries"]) for c in cases)
    run.extra["calls_judged"] = {k: sum(1 for d in descs if d["call"] == k) for k in sorted({d["call"] for d in descs})}
    run.cov["rule"] = ("random trees (fresh / already sliced on 1-2 indices / after anneal / after reconfigure) x target kind and value (given to the "
                       "constructor, or overridden per call in search / trial / best) x tree.slice with reslice / inplace x allow_outer in "
                       "{True, False, 'only'} x 5 objectives x temperature x seed x repeats; every cached cost entry and the returned "
                       "one judged by TLC against the definitional cost and the really sliced tree; searches that raise are counted only")


def replay(run, d):
    raise tla.MachineryError("C07 replay: rerun ./check C07 with the same VERIF_SEED")
