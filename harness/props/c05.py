"""C05 - every pathfinder returns a complete, well-formed contraction.

Spec: spec/Paths.tla (the linear / ssa machines; WellFormed) and the tree
completeness predicate.  Binding B: every path / tree returned by every finder
reachable from the public interface is a trace for the machine; TLC (PathJudge)
judges them in batch.  Hyper-parameters are drawn from the *registered* search
space by an own sampler.
"""
import math
import random

from .. import core, nets, tla, mc

LEVEL = "model_checking"

PRESETS_SMALL = ["greedy", "eager", "opportunistic", "optimal", "dp", "dynamic-programming", "optimal-outer",
                 "auto", "auto-hq", "random", "random-greedy"]
HYPER_METHODS = ["greedy", "random-greedy", "labels", "labels-agglom", "kahypar", "kahypar-balanced",
                 "kahypar-agglom", "random"]


def sample_params(space, rng):
    out = {}
    for k, spec in space.items():
        t = spec["type"]
        if t == "FLOAT":
            out[k] = rng.uniform(spec["min"], spec["max"])
        elif t == "FLOAT_EXP":
            out[k] = math.exp(rng.uniform(math.log(spec["min"]), math.log(spec["max"])))
        elif t == "INT":
            out[k] = rng.randint(spec["min"], spec["max"])
        elif t == "STRING":
            out[k] = rng.choice(list(spec["options"]))
        elif t == "BOOL":
            out[k] = rng.random() < 0.5
        else:
            raise ValueError(t)
    return out


def graph_net(rng, n, kind=None):
    """larger networks (12-45 tensors) with string labels, reached by the partitioners"""
    kind = kind or rng.choice(["tree", "ring+chords", "grid", "hyper", "disconnected"])
    edges = []
    if kind == "grid":
        w = max(2, int(math.sqrt(n)))
        h = (n + w - 1) // w
        n = w * h
        for i in range(n):
            if (i % w) + 1 < w:
                edges.append((i, i + 1))
            if i + w < n:
                edges.append((i, i + w))
    else:
        for t in range(1, n):
            if kind == "disconnected" and t in (n // 3, 2 * n // 3):
                continue
            edges.append((rng.randrange(t) if kind != "ring+chords" else t - 1, t))
        for _ in range(n // 3):
            a, b = rng.sample(range(n), 2)
            edges.append((a, b))
    inputs = [[] for _ in range(n)]
    size = {}
    for k, e in enumerate(edges):
        ix = f"e{k}"
        size[ix] = rng.choice([2, 2, 3, 4])
        for t in set(e):
            inputs[t].append(ix)
    if kind == "hyper":
        for k in range(3):
            ix = f"h{k}"
            size[ix] = 2
            for t in rng.sample(range(n), min(n, rng.randint(3, 5))):
                inputs[t].append(ix)
    output = []
    for k in range(rng.choice([0, 0, 1, 2])):
        ix = f"o{k}"
        size[ix] = 2
        inputs[rng.randrange(n)].append(ix)
        output.append(ix)
    for t in inputs:
        rng.shuffle(t)
    return tuple(tuple(t) for t in inputs), tuple(output), size, kind


def small_cases(rng, count):
    """(inputs, output, size_dict, kind) with 1..8 tensors including the degenerate ones"""
    out = []
    fixed = [
        ((("a", "b"),), ("a",), {"a": 2, "b": 3}, "1-tensor"),
        ((("a", "a"),), (), {"a": 2}, "1-tensor-trace"),
        (((),), (), {}, "1-scalar"),
        ((("a",), ("a",)), (), {"a": 2}, "2-tensor"),
        ((("a",), ("b",)), ("a", "b"), {"a": 2, "b": 3}, "2-outer"),
        (((), ()), (), {}, "2-scalars"),
        (((), (), ()), (), {}, "3-scalars"),
        ((("a",), ("b",), ("c",), ("d",)), (), {"a": 2, "b": 2, "c": 2, "d": 2}, "all-disconnected"),
        ((("a",), ("b",), ("c",)), ("c", "a", "b"), {"a": 2, "b": 2, "c": 3}, "outer-3"),
        ((("a", "b"), ("a", "b"), ("a", "b")), ("a",), {"a": 2, "b": 3}, "same-inds"),
    ]
    out += fixed
    while len(out) < count:
        net = nets.rand_net(rng, n=rng.randint(2, 8), weird=True)
        out.append((net.c_inputs(), net.c_output(), net.c_sizes(), "rand:" + ",".join(sorted(net.features()))))
    return out


def connected_no_scalars(inputs):
    """an edge path can only join tensors that share an index: at path level it is complete only for connected networks"""
    if any(len(t) == 0 for t in inputs):
        return False
    seen, todo = {0}, [0]
    while todo:
        i = todo.pop()
        for j in range(len(inputs)):
            if j not in seen and set(inputs[i]) & set(inputs[j]):
                seen.add(j)
                todo.append(j)
    return len(seen) == len(inputs)


def path_case(N, path):
    return {"kind": "linear", "N": N, "path": [[int(i) for i in p] for p in path]}


def tree_case(tree):
    return {"kind": "tree", "N": tree.N,
            "ch": [[frozenset(map(int, p)), frozenset(map(int, l)), frozenset(map(int, r))]
                   for p, (l, r) in tree.children.items()]}


def tags_of(api, kind, N, err=None):
    t = {"api:" + api.split("(")[0].split("[")[0], "N:%d" % N if N <= 2 else "N>2"}
    if not api.startswith(("array_contract", "from_path")):
        t.add("direct-optimizer")      # an optimizer object / registered trial function called directly
    if kind:
        t.add("net:" + kind.split(":")[0])
    if err:
        t.add(err)
    return t


def run(run):
    import cotengra as ct
    from cotengra.hyperoptimizers import hyper
    rng = random.Random(run.seed * 5003 + 5)
    quick = run.tier == "quick"
    res = mc.run_mc("MC_Paths", workers=4)
    run.tlc(res)
    run.extra["mc_instances"] = {"MC_Paths": {"states": res.distinct, "exhaustive": True}}
    cases, descs = [], []

    def call(api, kind, N, fn, inputs, output, size, want, timeout=60, extra=None):
        """run one finder call; want in {'path', 'tree'}"""
        d = {"api": api, "inputs": [list(t) for t in inputs], "output": list(output), "sizes": size,
             "net_kind": kind, "extra": extra}
        run.count()
        run.nontrivial((api, str(inputs), str(output), str(extra)))
        if N == 1:
            timeout = min(timeout, 5)
        try:
            with core.watchdog(timeout):
                r = fn()
        except core.Hang as e:
            run.violation(f"{api} did not return within {timeout}s on {kind} inputs={inputs} output={output}",
                          d, tags=tags_of(api, kind, N, "hang"))
            return None
        except Exception as e:
            run.violation(f"{api} raised {core.exc_text(e)} on {kind} inputs={inputs} output={output} extra={extra}",
                          d, tags=tags_of(api, kind, N, "raised") | {type(e).__name__})
            return None
        try:
            if want == "path-valid":
                pc = path_case(N, r)
                pc["kind"] = "linear_valid"
                cases.append(pc)
            elif want == "path":
                cases.append(path_case(N, r))
            else:
                if r.N != N or tuple(map(tuple, r.inputs)) != tuple(map(tuple, inputs)) and not api.startswith("array_contract"):
                    run.violation(f"{api} returned a tree of another contraction", d, tags=tags_of(api, kind, N, "wrong-tree"))
                    return r
                cases.append(tree_case(r))
            descs.append(d)
        except Exception as e:
            run.violation(f"{api} returned a malformed {want}: {core.exc_text(e)}: {r!r}"[:400], d,
                          tags=tags_of(api, kind, N, "malformed"))
        return r

    space = hyper.get_hyper_space()
    consts = hyper.get_hyper_constants()
    # ---- 1. presets through the public interface, small networks ------------------
    smalls = small_cases(rng, 26 if quick else 120)
    for inputs, output, size, kind in smalls:
        N = len(inputs)
        # the degenerate hand-written cases get every preset; random ones a sample in the quick tier
        presets = PRESETS_SMALL if (not quick or not kind.startswith("rand:")) else rng.sample(PRESETS_SMALL, 5)
        for pre in presets:
            if pre.startswith("optimal") or pre in ("dp", "dynamic-programming"):
                if N > 7:
                    continue
            call(f"array_contract_path(optimize='{pre}')", kind, N,
                 lambda: ct.array_contract_path(inputs, output, size, optimize=pre, cache=False),
                 inputs, output, size, "path")
            call(f"array_contract_tree(optimize='{pre}')", kind, N,
                 lambda: ct.array_contract_tree(inputs, output, size, optimize=pre),
                 inputs, output, size, "tree")
        # ---- 2. optimizer objects ---------------------------------------------------
        objs = {
            "HyperOptimizer": lambda: ct.HyperOptimizer(methods=rng.sample(["greedy", "random-greedy", "labels", "kahypar", "random"], 2),
                                                        max_repeats=4, parallel=False, optlib="random"),
            "RandomGreedyOptimizer": lambda: ct.RandomGreedyOptimizer(max_repeats=4, seed=rng.randrange(100), parallel=False),
            "GreedyOptimizer": lambda: ct.GreedyOptimizer(),
            "OptimalOptimizer": lambda: ct.OptimalOptimizer() if N <= 7 else ct.GreedyOptimizer(),
            "RandomOptimizer": lambda: ct.pathfinders.path_random.RandomOptimizer(seed=rng.randrange(100)),
            "ReusableHyperOptimizer": lambda: ct.ReusableHyperOptimizer(methods=["greedy"], max_repeats=3, parallel=False, optlib="random"),
            "ReusableRandomGreedyOptimizer": lambda: ct.ReusableRandomGreedyOptimizer(max_repeats=3, parallel=False),
            "AutoOptimizer": lambda: ct.AutoOptimizer(max_repeats=4),
            "AutoHQOptimizer": lambda: ct.AutoHQOptimizer(max_repeats=4, optimal_cutoff=rng.choice([0, 650])),
        }
        names = list(objs) if not quick else rng.sample(list(objs), 3)
        for nm in names:
            o1, o2 = objs[nm](), objs[nm]()
            call(f"{nm}.search", kind, N, lambda: o1.search(inputs, output, size), inputs, output, size, "tree")
            call(f"{nm}.__call__", kind, N, lambda: o2(inputs, output, size), inputs, output, size, "path")
        # ---- 3. hyper methods through their registered trial functions ---------------
        methods = HYPER_METHODS if not quick else rng.sample(HYPER_METHODS, 3)
        for m in methods:
            params = sample_params(space[m], rng)
            call(f"hyper-method[{m}]", kind, N,
                 lambda: hyper.base_trial_fn(inputs, output, size, m, **params, **consts[m])["tree"],
                 inputs, output, size, "tree", timeout=30, extra={"params": params})
        # ---- 4. explicit paths -------------------------------------------------------
        if N >= 2:
            lin = []
            live = N
            while live > 1:
                i, j = sorted(rng.sample(range(live), 2))
                lin.append((i, j))
                live -= 1
            call("array_contract_tree(explicit linear path)", kind, N,
                 lambda: ct.array_contract_tree(inputs, output, size, optimize=tuple(lin)), inputs, output, size, "tree")
            call("array_contract_path(explicit linear path)", kind, N,
                 lambda: ct.array_contract_path(inputs, output, size, optimize=list(lin), cache=False), inputs, output, size, "path")
            call("array_contract_path(explicit linear path as tuple)", kind, N,
                 lambda: ct.array_contract_path(inputs, output, size, optimize=tuple(lin), cache=False,
                                                canonicalize=rng.random() < 0.5), inputs, output, size, "path")
            ixs = sorted(size)
            rng.shuffle(ixs)
            if ixs and all(isinstance(x, str) for x in ixs):
                # explicit EDGE paths (orders of index labels) through the interface, as tuple and as list, after the
                # explicit linear paths above went through the same entry points
                call("array_contract_path(explicit edge path)", kind, N,
                     lambda: ct.array_contract_path(inputs, output, size, optimize=tuple(ixs), cache=False), inputs, output, size,
                     "path" if connected_no_scalars(inputs) else "path-valid")
                call("array_contract_tree(explicit edge path)", kind, N,
                     lambda: ct.array_contract_tree(inputs, output, size, optimize=list(ixs)), inputs, output, size, "tree")
                call("array_contract_path(explicit edge path as list, canonicalize=False)", kind, N,
                     lambda: ct.array_contract_path(inputs, output, size, optimize=list(ixs), cache=False, canonicalize=False),
                     inputs, output, size, "path" if connected_no_scalars(inputs) else "path-valid")
                # the same with INTEGER index labels handed over as they are (an edge path is then a sequence of ints)
                imap = {ix_: 11 + k_ for k_, ix_ in enumerate(sorted(size))}
                iinp = tuple(tuple(imap[x] for x in t) for t in inputs)
                iout = tuple(imap[x] for x in output)
                isz = {imap[x]: v for x, v in size.items()}
                iep = [imap[x] for x in ixs]
                call("array_contract_path(explicit edge path, integer labels, canonicalize=False)", kind, N,
                     lambda: ct.array_contract_path(iinp, iout, isz, optimize=list(iep), cache=False, canonicalize=False),
                     iinp, iout, isz, "path" if connected_no_scalars(inputs) else "path-valid")
                call("array_contract_path(explicit edge path, integer labels)", kind, N,
                     lambda: ct.array_contract_path(iinp, iout, isz, optimize=tuple(iep), cache=False),
                     iinp, iout, isz, "path" if connected_no_scalars(inputs) else "path-valid")
                call("array_contract_path(explicit edge path as list)", kind, N,
                     lambda: ct.array_contract_path(inputs, output, size, optimize=list(ixs), cache=False), inputs, output, size,
                     "path" if connected_no_scalars(inputs) else "path-valid")
            if ixs:
                call("from_path(edge_path, autocomplete)", kind, N,
                     lambda: ct.ContractionTree.from_path(inputs, output, size, edge_path=ixs, autocomplete=True),
                     inputs, output, size, "tree")
            if ixs:
                # the older spelling of the same constructor, defaults as they are
                import warnings

                def _alias():
                    with warnings.catch_warnings():
                        warnings.simplefilter("ignore")
                        return ct.ContractionTree.from_edge_path(ixs, inputs, output, size)
                call("from_edge_path(edge_path) [alias, defaults]", kind, N, _alias, inputs, output, size, "tree")
            if len(lin) > 1:
                call("from_path(incomplete path, autocomplete)", kind, N,
                     lambda: ct.ContractionTree.from_path(inputs, output, size, path=lin[:-1], autocomplete=True),
                     inputs, output, size, "tree")
    # ---- 5. partition-based methods on networks larger than cutoff / groupsize ------
    nbig = 14 if quick else 120
    for _ in range(nbig):
        inputs, output, size, kind = graph_net(rng, rng.randint(12, 45 if not quick else 30))
        N = len(inputs)
        for m in rng.sample(HYPER_METHODS, 3 if quick else 5):
            params = sample_params(space[m], rng)
            call(f"hyper-method[{m}]", "graph:" + kind, N,
                 lambda: hyper.base_trial_fn(inputs, output, size, m, **params, **consts[m])["tree"],
                 inputs, output, size, "tree", timeout=120, extra={"params": params})
        pre = rng.choice(["greedy", "auto", "auto-hq", "random-greedy"])
        call(f"array_contract_path(optimize='{pre}')", "graph:" + kind, N,
             lambda: ct.array_contract_path(inputs, output, size, optimize=pre, cache=False), inputs, output, size, "path",
             timeout=300)
        # the same network with scalar tensors appended / removed again, through the same (shared) preset object:
        # every answer must still be a contraction of the network it was asked about
        for extra in ([1, 2, 0] if rng.random() < 0.5 else [2, 0, 1]):
            inp2 = tuple(inputs) + ((),) * extra
            call(f"array_contract_path(optimize='{pre}')", "graph+scalars:" + kind, len(inp2),
                 lambda: ct.array_contract_path(inp2, output, size, optimize=pre, cache=False), inp2, output, size, "path",
                 timeout=300, extra={"scalars_appended": extra})
    # ---- 6. the partition-based builders under an ADVERSARIAL partitioner ------------------------------------------
    # labels / kahypar reach the tree through PartitionTreeBuilder.build_divide / build_agglom; whatever labelling a
    # partitioner returns (one block, all singletons, unbalanced, labels with gaps) the builder must end with a complete
    # tree (spec/Build.tla: DivideMany / GroupUp / Auto)
    from cotengra.core import PartitionTreeBuilder

    def adversary(style, arng):
        def partition_fn(inputs_, output_, size_dict_, parts=2, seed=None, **kw):
            n = len(inputs_)
            if style == "one-block":
                return [0] * n
            if style == "singletons":
                return list(range(n))
            if style == "gaps":
                return [3 * arng.randrange(parts) + 7 for _ in range(n)]
            if style == "unbalanced":
                return [0] + [1] * (n - 1)
            if style == "alternating":
                # first call splits, later calls refuse
                partition_fn.calls = getattr(partition_fn, "calls", 0) + 1
                return [k % 2 for k in range(n)] if partition_fn.calls % 2 else [0] * n
            return [arng.randrange(max(1, parts)) for _ in range(n)]
        return partition_fn

    STYLES = ["one-block", "singletons", "gaps", "unbalanced", "alternating", "random", "random"]
    for _ in range(30 if quick else 400):
        if rng.random() < 0.5:
            inputs, output, size, kind = graph_net(rng, rng.randint(6, 14))
        else:
            inputs, output, size, kind = rng.choice(smalls)
            if len(inputs) < 2:
                continue
        N = len(inputs)
        style = rng.choice(STYLES)
        aseed = rng.randrange(10**6)
        builder = PartitionTreeBuilder(adversary(style, random.Random(aseed)))
        if rng.random() < 0.5:
            opts = {"cutoff": rng.choice([1, 2, 3]), "parts": rng.choice([2, 3, 5]), "parts_decay": rng.choice([0.0, 0.5, 1.0]),
                    "sub_optimize": rng.choice(["greedy", "auto"]), "super_optimize": rng.choice(["greedy", "auto-hq", "optimal"]),
                    "check": rng.random() < 0.5, "seed": aseed}
            call(f"PartitionTreeBuilder.build_divide[{style}]", "adversarial:" + kind, N,
                 lambda: builder.build_divide(inputs, output, size, **opts), inputs, output, size, "tree", timeout=60,
                 extra={"opts": opts, "style": style})
        else:
            opts = {"groupsize": rng.choice([1, 2, 3]), "sub_optimize": rng.choice(["greedy", "auto"]),
                    "check": rng.random() < 0.5, "seed": aseed}
            call(f"PartitionTreeBuilder.build_agglom[{style}]", "adversarial:" + kind, N,
                 lambda: builder.build_agglom(inputs, output, size, **opts), inputs, output, size, "tree", timeout=60,
                 extra={"opts": opts, "style": style})
    judge(run, cases, descs)
    run.cov["rule"] = ("finders: 11 presets via array_contract_path/tree, 9 optimizer classes via search/__call__, 8 hyper methods via "
                       "their registered trial functions with parameters sampled from the registered space, explicit linear/edge/"
                       "incomplete paths, the partition-based builders under adversarial partition functions; networks: degenerate (1, 2 tensors, scalars, disconnected), random weird 2-8 tensors, "
                       "graphs of 12-45 tensors; distinct by (api, network, parameters)")


def judge(run, cases, descs):
    verdicts, results = tla.judge_cases(f"c05_{run.tier}", "PathJudge", cases, chunk=300)
    for res in results:
        run.tlc(res)
    run.cov["traces_validated_against_impl"] += len(cases)
    for case, d, v in zip(cases, descs, verdicts):
        if v[0] != "ok":
            N = case["N"]
            run.violation(f"{d['api']} returned a {case['kind']} that is not a complete well-formed contraction: {v[0]} "
                          f"inputs={d['inputs']} output={d['output']} result={case.get('path') or case.get('ch')}"[:600],
                          d, tags=tags_of(d["api"], d["net_kind"], N, v[0]))
        else:
            run.sample({"api": d["api"], "inputs": d["inputs"][:8], "output": d["output"], "N": case["N"],
                        "result": (case.get("path") or [sorted(x[0]) for x in case.get("ch", [])])[:8], "verdict": "ok"}, cap=8)


def replay(run, desc):
    raise tla.MachineryError("C05 replay: re-run ./check C05 with the same VERIF_SEED (calls are regenerated deterministically)")
