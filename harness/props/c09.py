"""C09 - the 'optimal' pathfinder really is optimal.

Spec: spec/Optimal.tla defines the minimum of each objective over ALL binary
trees (or all outer-product-free trees) by structural recursion over the root
split without memoisation, i.e. by visiting every tree, with step costs from
the definitions of Network.tla.  Binding A: network -> optimize_optimal(...)
for 6 objectives x search_outer x initial cost caps -> returned path; TLC
(OptimalJudge) recomputes the cost of the returned tree and the minimum.
"""
import itertools
import random

from .. import core, nets, tla

LEVEL = "model_checking"
OBJ = [("flops", 0), ("size", 0), ("write", 0), ("max", 0), ("combo", 64), ("limit", 64), ("combo", 3), ("limit", 7),
       ("combo", 0.5), ("limit", 1.5), ("combo", 2.5), ("limit", 0.25)]


def kpair(k):
    """weight as <<numerator, denominator>> for the judge"""
    from fractions import Fraction
    fr = Fraction(str(k))
    return [fr.numerator, fr.denominator]


def simplified(net):
    N = net.N
    if not nets.connected(net) or any(len(t) == 0 or len(set(t)) != len(t) for t in net.inputs):
        return False
    for ix in range(1, net.K + 1):
        on = net.on(ix)
        if len(on) == N:
            return False
        if len(on) < 2 and ix not in net.output:
            return False
    sets = [frozenset(t) for t in net.inputs]
    return len(set(sets)) == N


def star_net(rng, n):
    """a hub tensor whose legs end in small blobs (a vector, or a matrix closed by a vector): the optimum often takes
    the OUTER product of two contracted blobs before meeting the hub"""
    sizes = []
    left = n - 1
    while left > 0:
        a = rng.choice([1, 2, 2]) if left >= 2 else 1
        sizes.append(a)
        left -= a
    if len(sizes) < 2 or len(sizes) > 3:
        return None
    inputs, dims = [[]], []

    def new(d):
        dims.append(d)
        return len(dims)
    for a in sizes:
        leg = new(rng.randint(2, 3))
        inputs[0].append(leg)
        if a == 2:
            inner = new(rng.randint(2, 3))
            inputs.append([leg, inner])
            inputs.append([inner])
        else:
            inputs.append([leg])
    out = []
    if rng.random() < 0.8:
        o = new(rng.randint(2, 4))
        inputs[0].append(o)
        out.append(o)
    for t in inputs:
        rng.shuffle(t)
    order = list(range(len(inputs)))
    rng.shuffle(order)
    return nets.Net([inputs[i] for i in order], out, dims, kind="star")


def batch_net(rng, n):
    """an output index carried by all tensors but one (a batch index); half of the time one of its carriers is a vector on
    that index alone"""
    vec = n >= 3 and rng.random() < 0.5
    m = n - 1 if vec else n
    if m < 2:
        return None
    base = nets.ordinary_net(rng, n=m, maxdim=rng.choice([3, 5]), n_out=rng.choice([0, 1]), hyper=False, max_rank=3)
    inputs = [list(t) for t in base.inputs]
    dims = list(base.dims)
    dims.append(rng.randint(2, 5))
    bix = len(dims)
    skip = rng.randrange(m)
    for t in range(m):
        if t != skip:
            inputs[t].insert(rng.randint(0, len(inputs[t])), bix)
    if vec:
        inputs.insert(rng.randint(0, m), [bix])
    out = list(base.output)
    out.insert(rng.randint(0, len(out)), bix)
    return nets.Net(inputs, out, dims, kind="batch-output")


def gen_net(rng, n, star=False):
    for _ in range(4000):
        r = rng.random()
        if not star and r > 0.85 and n <= 5:
            net = batch_net(rng, n)
            if net is None:
                continue
        elif star or (r < 0.2 and n >= 4):
            net = star_net(rng, n)
            if net is None:
                continue
        else:
            net = nets.ordinary_net(rng, n=n, maxdim=rng.choice([3, 3, 5]), n_out=rng.choice([0, 1, 2]),
                                    hyper=rng.random() < 0.5, max_rank=4)
            if rng.random() < 0.3:
                # size-1 dimensions: a bond of dimension 1 still connects two tensors
                dims = list(net.dims)
                for k in rng.sample(range(net.K), rng.randint(1, min(3, net.K))):
                    dims[k] = 1
                net = nets.Net(net.inputs, net.output, dims, kind="ordinary-dim1")
        if net.N == n and simplified(net) and net.K <= 9:
            return net
    raise RuntimeError


def own_cost(net, ssa, obj, k):
    """used only to choose interesting initial cost caps (never for a verdict)"""
    legs = {i: set(t) for i, t in enumerate(net.inputs)}
    members = {i: {i} for i in range(net.N)}
    cost = {i: 0 for i in range(net.N)}
    nxt = net.N
    for a, b in ssa:
        m = members[a] | members[b]
        inv = legs[a] | legs[b]
        keep = {ix for ix in inv if ix in net.output or any(ix in net.inputs[t] for t in range(net.N) if t not in m)}
        f = 1
        for ix in inv:
            f *= net.dim(ix)
        w = 1
        for ix in keep:
            w *= net.dim(ix)
        ca, cb = cost[a], cost[b]
        c = {"flops": ca + cb + f, "write": ca + cb + w, "size": max(ca, cb, w), "max": max(ca, cb, f),
             "combo": ca + cb + f + k * w, "limit": ca + cb + max(f, k * w)}[obj]
        members[nxt], legs[nxt], cost[nxt] = m, keep, c
        nxt += 1
    return cost[nxt - 1]


def run(run):
    from cotengra.pathfinders.path_basic import optimize_optimal
    rng = random.Random(run.seed * 10007 + 9)
    quick = run.tier == "quick"
    plan = [(3, 6, 0), (4, 8, 0), (5, 3, 0), (6, 1, 0), (5, 5, 1), (6, 2, 1)] if quick else \
        [(3, 40, 0), (4, 80, 0), (5, 60, 0), (6, 25, 0), (7, 4, 0), (5, 40, 1), (6, 20, 1), (7, 3, 1)]
    cases, descs = [], []
    for n, count, star in plan:
        for _ in range(count):
            net = gen_net(rng, n, star=bool(star))
            objs = OBJ if n <= (4 if quick else 5) else rng.sample(OBJ, 3)
            if star and n >= 5 and quick:
                objs = [("flops", 0), ("write", 0), ("combo", 64)]
            # objectives in a random order, and the plain 'combo' / 'limit' once more AFTER the custom weights: what a weight
            # string means must not depend on which strings this process parsed before
            objs = list(objs)
            rng.shuffle(objs)
            if any(k_ not in (0, 64) for _, k_ in objs):
                objs += [("combo", 64), ("limit", 64)]
            for (obj, k), outer in itertools.product(objs, (False, True)):
                minimize = obj if k in (0, 64) else f"{obj}-{k}"
                kk = 64 if (k == 0 and obj in ("combo", "limit")) else k
                caps = [2]
                try:
                    with core.watchdog(120):
                        p0 = optimize_optimal(net.c_inputs(), net.c_output(), net.c_sizes(), minimize=minimize,
                                              cost_cap=2, search_outer=outer, use_ssa=True)
                    opt = int(own_cost(net, p0, obj, kk))
                    caps = [2, 1, 10**9, opt, max(opt - 1, 1)] if (quick and rng.random() < 0.3) or not quick else [2, rng.choice([1, 10**9, opt, max(opt - 1, 1)])]
                except Exception:
                    pass
                for cap in caps:
                    d = {"net": net.to_json(), "minimize": minimize, "outer": outer, "cost_cap": cap}
                    run.count()
                    run.nontrivial((net.eq(), str(net.dims), minimize, outer, cap))
                    try:
                        with core.watchdog(120):
                            ssa = optimize_optimal(net.c_inputs(), net.c_output(), net.c_sizes(), minimize=minimize,
                                                   cost_cap=cap, search_outer=outer, use_ssa=True)
                        ch = nets.ssa_to_children([tuple(p) for p in ssa], net.N)
                    except Exception as e:
                        run.violation(f"optimize_optimal raised {core.exc_text(e)} eq={net.eq()} minimize={minimize} outer={outer} cap={cap}",
                                      d, tags={"raised"})
                        continue
                    d["ssa"] = [list(map(int, p)) for p in ssa]
                    cases.append({"net": net.tla(), "obj": obj, "k": kpair(kk), "outer": outer,
                                  "ch": [[p, l, r] for p, (l, r) in ch.items()]})
                    descs.append(d)
    # the class interface, one long-lived instance: calls with per-call overrides alternate with plain calls, which must use the
    # options the instance was built with (and re-assigned attributes must take effect)
    from cotengra.pathfinders.path_basic import OptimalOptimizer
    inst = OptimalOptimizer(minimize="flops", search_outer=False)
    kobj = {"flops": 0, "size": 0, "write": 0, "max": 0, "combo": 64, "limit": 64}
    for _ in range(12 if quick else 120):
        net = gen_net(rng, rng.choice([3, 4, 4, 5]), star=rng.random() < 0.3 and False)
        steps = []
        o_obj, o_outer = rng.choice(["size", "write", "combo", "max"]), rng.random() < 0.5
        steps.append(("override", {"minimize": o_obj, "search_outer": o_outer}, None))
        steps.append(("plain", {}, None))
        if rng.random() < 0.3:
            steps.append(("plain-after-reassigning-attributes", {}, (rng.choice(["flops", "write", "size"]), rng.random() < 0.5)))
        for how, kw, reassign in steps:
            if reassign is not None:
                inst.minimize, inst.search_outer = reassign
            # the options in force for THIS call: the per-call overrides, else the instance's attributes as they are now
            obj, outer = kw.get("minimize", inst.minimize), kw.get("search_outer", inst.search_outer)
            d = {"net": net.to_json(), "minimize": obj, "outer": bool(outer), "cost_cap": "instance", "entry": f"OptimalOptimizer instance ({how})"}
            run.count()
            run.nontrivial((net.eq(), str(net.dims), obj, outer, how, rng.random()))
            try:
                with core.watchdog(120):
                    via = rng.choice(["ssa_path", "search", "call"])
                    if via == "ssa_path":
                        ssa = inst.ssa_path(net.c_inputs(), net.c_output(), net.c_sizes(), **kw)
                    elif via == "search":
                        ssa = inst.search(net.c_inputs(), net.c_output(), net.c_sizes(), **kw).get_ssa_path()
                    else:
                        from cotengra.pathfinders.path_basic import linear_to_ssa
                        ssa = linear_to_ssa(inst(net.c_inputs(), net.c_output(), net.c_sizes(), **kw), net.N)
                ch = nets.ssa_to_children([tuple(p) for p in ssa], net.N)
            except Exception as e:
                run.violation(f"OptimalOptimizer instance ({how}) raised {core.exc_text(e)} eq={net.eq()}", d, tags={"raised"})
                continue
            d["ssa"] = [list(map(int, p)) for p in ssa]
            cases.append({"net": net.tla(), "obj": obj, "k": kpair(kobj[obj]), "outer": bool(outer), "ch": [[p, l, r] for p, (l, r) in ch.items()]})
            descs.append(d)
    # the finder reached by its REGISTERED NAMES: optimize='optimal' / 'dp' / 'dynamic-programming' (outer-product-free) and
    # 'optimal-outer' (all trees), through the path-returning and the tree-returning entry points, and the exported
    # optimizer objects called directly / via .search (objective: the default, flops)
    import cotengra as ct
    from cotengra.pathfinders.path_basic import linear_to_ssa as _l2s
    NAMES = [("optimal", False), ("dp", False), ("dynamic-programming", False), ("optimal-outer", True)]
    for _ in range(10 if quick else 100):
        net = gen_net(rng, rng.choice([3, 4, 4, 5]), star=rng.random() < 0.5)
        for name, outer in (NAMES if not quick else [NAMES[rng.randrange(3)], NAMES[3]]):
            for entry in ("array_contract_path", "array_contract_tree", "object()", "object.search"):
                d = {"net": net.to_json(), "minimize": "flops", "outer": outer, "cost_cap": "default", "entry": f"optimize='{name}' via {entry}"}
                run.count()
                run.nontrivial((net.eq(), str(net.dims), name, entry))
                try:
                    with core.watchdog(120):
                        if entry == "array_contract_path":
                            ssa = _l2s(ct.array_contract_path(net.c_inputs(), net.c_output(), size_dict=net.c_sizes(), optimize=name,
                                                              cache=rng.random() < 0.5), net.N)
                        elif entry == "array_contract_tree":
                            ssa = ct.array_contract_tree(net.c_inputs(), net.c_output(), size_dict=net.c_sizes(), optimize=name).get_ssa_path()
                        else:
                            obj_ = ct.optimal_outer_optimize if outer else ct.optimal_optimize
                            d["entry"] = f"ct.{'optimal_outer_optimize' if outer else 'optimal_optimize'} {entry}"
                            if entry == "object()":
                                ssa = _l2s(obj_(net.c_inputs(), net.c_output(), net.c_sizes()), net.N)
                            else:
                                ssa = obj_.search(net.c_inputs(), net.c_output(), net.c_sizes()).get_ssa_path()
                    ch = nets.ssa_to_children([tuple(p) for p in ssa], net.N)
                except Exception as e:
                    run.violation(f"{d['entry']} raised {core.exc_text(e)} eq={net.eq()}", d, tags={"raised", "preset"})
                    continue
                d["ssa"] = [list(map(int, p)) for p in ssa]
                cases.append({"net": net.tla(), "obj": "flops", "k": [0, 1], "outer": outer, "ch": [[p, l, r] for p, (l, r) in ch.items()]})
                descs.append(d)
    # big cases (n >= 6) are slow to judge: smaller chunks
    verdicts, results = tla.judge_cases(f"c09_{run.tier}", "OptimalJudge", cases, chunk=40, maxpar=14, timeout=3000)
    for res in results:
        run.tlc(res)
    run.cov["traces_validated_against_impl"] += len(cases)
    for case, d, v in zip(cases, descs, verdicts):
        if v[0] == "spec-inconsistent":
            raise tla.MachineryError(f"Optimal.tla: a returned tree beats the 'minimum over all trees': {d} {v}")
        if v[0] == "network-outside-the-property":
            raise tla.MachineryError(f"generator produced a network outside C09's preconditions: {d}")
        if v[0] != "ok":
            run.violation(f"optimal finder{' - ' + d['entry'] if d.get('entry') else ''}: {v[0]}: returned tree costs {v[1]} but the minimum over all "
                          f"{'trees' if d['outer'] else 'outer-product-free trees'} is {v[2]} | eq={d['net']['eq']} dims={d['net']['dims']} "
                          f"minimize={d['minimize']} search_outer={d['outer']} cost_cap={d['cost_cap']} path={d.get('ssa')}",
                          d, tags={v[0], "obj:" + d["minimize"].split("-")[0]})
        else:
            run.sample({"eq": d["net"]["eq"], "dims": d["net"]["dims"], "minimize": d["minimize"], "search_outer": d["outer"],
                        "cost_cap": d["cost_cap"], "returned_ssa_path": d["ssa"], "cost": v[1], "minimum_over_all_trees": v[2]})
    run.cov["rule"] = ("connected networks with nothing to pre-simplify, 3-7 tensors, dims 2..3, x 8 objectives (6 kinds, custom factors) x "
                       "search_outer x initial cost caps {2, 1, 1e9, optimum, optimum-1}; every returned path judged by TLC against the "
                       "minimum over ALL trees (recursion over root splits without memoisation); distinct by (network, objective, outer, cap)")
    run.assumptions += ["integers below 2^31"]


def replay(run, d):
    from cotengra.pathfinders.path_basic import optimize_optimal
    net = nets.Net.from_json(d["net"])
    ssa = optimize_optimal(net.c_inputs(), net.c_output(), net.c_sizes(), minimize=d["minimize"], cost_cap=d["cost_cap"],
                           search_outer=d["outer"], use_ssa=True)
    ch = nets.ssa_to_children([tuple(p) for p in ssa], net.N)
    obj = d["minimize"].split("-")[0]
    k = float(d["minimize"].split("-")[1]) if "-" in d["minimize"] else (64 if obj in ("combo", "limit") else 0)
    verdicts, _ = tla.judge_cases("c09_replay", "OptimalJudge", [{"net": net.tla(), "obj": obj, "k": kpair(k), "outer": d["outer"],
                                                                "ch": [[p, l, r] for p, (l, r) in ch.items()]}])
    run.count()
    if verdicts[0][0] != "ok":
        run.violation(f"optimal finder: {verdicts[0]} {d}", d, tags={verdicts[0][0]})
