"""C06 - slices partition the contraction exactly and are reassembled correctly.

Design level: MC_Slicing (every pattern of <= 4 sliced/projected indices of
sizes 1..3: slice numbers <-> value combinations is a bijection, blocks tile
the output keys) and MC_SlicingValue (sections summed over inner sliced indices
reassemble the contraction) are model-checked exhaustively by TLC.
Binding A: networks x trees x ordered subsets of <= 3 indices sliced or
projected x ALL slice numbers: the implementation's slice_key(i) for every i,
chunk keys, and (sampled) all values are judged by TLC (SliceJudge); in every
case the numeric value of every slice is compared with the section at the key
the implementation reported for it (which TLC ties to SliceKey(i)).
"""
import itertools
import random

import numpy as np

from .. import core, nets, observe, tla, mc
from . import c03

LEVEL = "model_checking"


def flat(x):
    return [int(v) for v in np.asarray(x).reshape(-1)]


class FakeComm:
    """stand-in for an mpi4py communicator: one rank of `size`; the reduction hands back the rank's own partial sum"""
    def __init__(self, rank, size):
        self.rank, self.size = rank, size

    def Allreduce(self, send, recv):
        recv[...] = send

    def Reduce(self, send, recv, root=0):
        if recv is not None:
            recv[...] = send


def one_case(run, ct, rng, net, ssa, plan, tlc_values, route=None):
    desc = {"net": net.to_json(), "ssa": [list(p) for p in ssa], "plan": plan}
    if route is not None:
        desc["route"] = route
    inv = net._inv()
    arrays = nets.canon_arrays(net)
    try:
        with core.watchdog(120):
            tree = observe.build_tree(ct, net, ssa)
            # the sliced state is reached along a route with queries in between and restore / re-remove detours
            tree, desc["route"] = c03.apply_plan(tree, net, [tuple(p) for p in plan], rng, route=desc.get("route"))
            n = tree.nslices
            keys = [{inv[k]: int(v) for k, v in tree.slice_key(i).items()} for i in range(n)]
            opts = rng.choice([{}, {"prefer_einsum": True}, {"order": "dfs"}])
            svals = [np.asarray(tree.contract_slice(arrays, i, **opts)) for i in range(n)]
            if rng.random() < 0.2:
                import contextlib, io
                with contextlib.redirect_stderr(io.StringIO()):
                    gathered = np.asarray(tree.gather_slices(svals, progbar=True))
            else:
                gathered = np.asarray(tree.gather_slices(svals))
            direct = np.asarray(tree.contract(arrays, **opts))
            # the slices handed back as (mantissa, exponent) pairs are reassembled too (rescaled to a common exponent, stacked
            # along sliced output indices)
            stripped = None
            if rng.random() < 0.5:
                fl = [np.asarray(a, dtype=float) for a in arrays]
                sp = [tree.contract_slice(fl, i, strip_exponent=True, check_zero=True) for i in range(n)]   # (the canonical arrays have zeros)
                try:
                    gm, ge = tree.gather_slices(sp)
                    stripped = np.asarray(gm) * 10.0 ** float(ge)
                except Exception as e_:
                    stripped = e_
            chunks = [(np.asarray(ch), {inv[k]: int(v) for k, v in key.items()})
                      for ch, key in tree.gen_output_chunks(arrays, with_key=True, **opts)]
            if rng.random() < 0.2:
                import contextlib, io
                with contextlib.redirect_stderr(io.StringIO()):
                    chunks_nokey = [np.asarray(ch) for ch in tree.gen_output_chunks(arrays, progbar=True)]
            else:
                chunks_nokey = [np.asarray(ch) for ch in tree.gen_output_chunks(arrays)]
            # the slices distributed over MPI ranks (stand-in communicator: every rank is run in turn, the partial results
            # are summed here): every slice number must be computed by exactly one rank
            mpi = None
            if not any(ix in net.output for ix, pr_ in plan) and rng.random() < 0.6:
                mult = int(tree.multiplicity)
                nproc = rng.randint(1, max(1, min(mult, 5)))
                parts = [np.asarray(tree.contract_mpi(arrays, comm=FakeComm(rk, nproc))) for rk in range(nproc)]
                mpi = (nproc, sum(parts[1:], parts[0]))
    except Exception as e:
        run.violation(f"slicing API raised {core.exc_text(e)} eq={net.eq()} dims={net.dims} ssa={ssa} plan={plan}",
                      desc, tags=["raised"])
        return None
    # numeric: every slice is the section at the key the implementation reports for it
    proj = {ix: p for ix, p in plan if p is not None}
    bad = None
    for i in range(n):
        want = nets.refeval(net, arrays, fix=keys[i])
        if svals[i].shape != want.shape or not np.array_equal(svals[i], want):
            bad = f"slice {i} is not the section at its key {keys[i]}"
            break
    full = nets.refeval(net, arrays, fix=proj, keep_fixed_output=True)
    if bad is None:
        for g, nm in ((gathered, "gather_slices"), (direct, "contract")):
            if g.shape != full.shape or not np.array_equal(g, full):
                bad = f"{nm} result differs from the contraction (shape {g.shape} vs {full.shape})"
                break
    if bad is None and stripped is not None and np.any(full != 0):     # (an exactly zero result is documented to come back as a scalar)
        if isinstance(stripped, Exception):
            bad = f"gather_slices of (mantissa, exponent) slices raised {core.exc_text(stripped)} (the result is not zero)"
        elif stripped.shape != full.shape or not np.allclose(stripped, full, rtol=1e-9, atol=1e-9):
            bad = "gather_slices of (mantissa, exponent) slices differs from the contraction"
    if bad is None and mpi is not None:
        # (a scalar result comes back with shape (1,): numpy's asfortranarray makes the reduction buffer at least 1-d)
        got_mpi = mpi[1].reshape(full.shape) if mpi[1].size == full.size and full.ndim == 0 else mpi[1]
        if got_mpi.shape != full.shape or not np.array_equal(got_mpi, full):
            bad = f"contract_mpi over {mpi[0]} ranks: the sum of the ranks' partial results differs from the contraction"
    if bad is None:
        for (ch, key), ch2 in zip(chunks, chunks_nokey):
            want = nets.refeval(net, arrays, fix={**proj, **key})
            if ch.shape != want.shape or not np.array_equal(ch, want) or not np.array_equal(ch2, want):
                bad = f"output chunk at key {key} differs from the section summed over inner sliced indices"
                break
        if len(chunks) != len(chunks_nokey):
            bad = "gen_output_chunks yields a different number of chunks with and without keys"
    if bad:
        run.violation(f"{bad}: eq={net.eq()} dims={net.dims} ssa={ssa} plan={plan}", desc, tags=["value"])
    okv = tlc_values and n <= 12 and all(nets.fits32(v) for v in svals) and nets.fits32(full)
    case = {"net": net.tla(), "sliced": observe.sliced_of(net, tree), "nslices": int(n), "keys": keys,
            "chunkkeys": [k for _, k in chunks], "check_values": bool(okv),
            "slicevals": [flat(v) for v in svals] if okv else [], "gathered": flat(gathered) if okv else [],
            "chunkvals": [flat(chv) for chv, _ in chunks] if okv else []}
    return case, desc


def run(run):
    import cotengra as ct
    rng = random.Random(run.seed * 2003 + 6)
    quick = run.tier == "quick"
    # design level
    for cfg in (["MC_Slicing", "MC_SlicingValue"]):
        res = mc.run_mc(cfg, workers=8)
        run.tlc(res)
        run.extra.setdefault("mc_instances", {})[cfg] = {"states": res.distinct, "exhaustive": True}
    pool = nets.net_pool(rng, 20 if quick else 120, nmin=2, nmax=4 if quick else 5, maxdim=3)
    cases = []
    for net in pool:
        trees = nets.all_trees(net.N)
        if len(trees) > (3 if quick else 8):
            trees = rng.sample(trees, 3 if quick else 8)
        for tr in trees:
            ssa = nets.tree_to_ssa(tr, net.N, rng)
            ixs = list(range(1, net.K + 1))
            plans = []
            for r in (1, 2, 3):
                combos = list(itertools.permutations(ixs, r))
                rng.shuffle(combos)
                plans += combos[: (3 if quick else 6)]
            for combo in plans:
                if np.prod([net.dim(ix) for ix in combo]) > 36:
                    continue
                plan = [(ix, rng.randrange(net.dim(ix)) if rng.random() < 0.25 else None) for ix in combo]
                r = one_case(run, ct, rng, net, ssa, plan, tlc_values=rng.random() < (0.12 if quick else 0.08))
                if r:
                    cases.append(r)
    judge(run, cases)
    run.cov["rule"] = ("networks x trees x ordered subsets (<=3) of indices sliced or projected (order of the remove_ind calls varied) "
                       "x ALL slice numbers; distinct by (network, tree, ordered plan); keys and chunk tiling judged by TLC for every "
                       "case, all values by TLC for a sample, every slice value against the section at its reported key in every case")


def judge(run, cases):
    verdicts, results = tla.judge_cases(f"c06_{run.tier}", "SliceJudge", [c[0] for c in cases], chunk=150)
    for res in results:
        run.tlc(res)
    run.cov["traces_validated_against_impl"] += len(cases)
    nv = 0
    for (case, desc), v in zip(cases, verdicts):
        run.count()
        run.nontrivial((desc["net"]["eq"], str(desc["net"]["dims"]), str(desc["ssa"]), str(desc["plan"])))
        nv += case["check_values"]
        if v[0] != "ok":
            run.violation(f"slicing rejected by SliceJudge: clause '{v[0]}' at {v[1]}: eq={desc['net']['eq']} "
                          f"dims={desc['net']['dims']} ssa={desc['ssa']} plan={desc['plan']}", desc, tags=[v[0]])
        else:
            run.sample({"eq": desc["net"]["eq"], "dims": desc["net"]["dims"], "ssa": desc["ssa"], "plan": desc["plan"],
                        "nslices": case["nslices"], "keys": case["keys"][:4], "values_judged_by_tlc": case["check_values"]})
    run.extra["cases_with_all_values_judged_by_tlc"] = run.extra.get("cases_with_all_values_judged_by_tlc", 0) + nv


def replay(run, desc):
    import cotengra as ct
    net = nets.Net.from_json(desc["net"])
    r = one_case(run, ct, random.Random(0), net, [tuple(p) for p in desc["ssa"]], [tuple(p) for p in desc["plan"]], True,
                 route=desc.get("route"))
    if r:
        judge(run, [r])
