"""Trace validation of cotengra's OWN test-suite (direction B): the repository's tests are run with the recording
plugin harness/repotrace.py; every recorded call of a tree transformation (state before, operation, state after,
from-scratch rebuild) is judged by TreeHistoryJudge against spec/Tree.tla and the definitions, and every tree the
tests execute (`contract`) has all of its figures judged.  The tests' own assertions are not used."""
import os
import pickle
import subprocess
import sys

from .. import core, tla

PY = sys.executable
JUDGE_FIELDS = ("net", "init", "events")
EVENT_FIELDS = ("op", "kind", "ix", "v", "mayslice", "snap", "rebuild_equal")

QUICK = {"files": ["tests/test_tree.py", "tests/test_slicer.py"], "k": None, "maxn": 12, "per_test": 10, "total": 400}
THOROUGH = {"files": ["tests/test_tree.py", "tests/test_slicer.py", "tests/test_compute.py", "tests/test_interface.py",
                      "tests/test_optimizers.py", "tests/test_paths_basic.py"],
            "k": "not chocolate and not optuna and not skopt and not ray and not dask", "maxn": 16, "per_test": 12, "total": 6000}


def collect(tag, cfg, timeout=3000):
    d = tla.workdir("repo_" + tag)
    out = os.path.join(d, "cases.pkl")
    if os.path.exists(out):
        os.remove(out)
    env = dict(os.environ, PYTHONPATH=f"{core.VERIF}:{core.REPO}", VERIF_TRACE_OUT=out, VERIF_TRACE_MAXN=str(cfg["maxn"]),
               VERIF_TRACE_PER_TEST=str(cfg["per_test"]), VERIF_TRACE_TOTAL=str(cfg["total"]), PYTHONHASHSEED="0")
    cmd = [PY, "-m", "pytest", "-q", "-p", "no:cacheprovider", "-p", "harness.repotrace", "--timeout=900"] + cfg["files"]
    if cfg["k"]:
        cmd += ["-k", cfg["k"]]
    try:
        p = subprocess.run(cmd, cwd=core.REPO, env=env, capture_output=True, text=True, timeout=timeout)
    except subprocess.TimeoutExpired:
        raise tla.MachineryError(f"the repository's tests did not finish within {timeout}s under the recording plugin")
    if not os.path.exists(out):
        raise tla.MachineryError(f"the repository's tests did not produce a trace file (pytest exit {p.returncode}):\n"
                                 + (p.stdout + p.stderr)[-1500:])
    with open(out, "rb") as f:
        data = pickle.load(f)
    data["pytest_tail"] = p.stdout.strip().splitlines()[-1:] if p.stdout.strip() else []
    return data


def run_repo_traces(run, focus, tag):
    """focus 'figures' (C04): figure / init / rebuild clauses; focus 'value' (C02): transition clauses and
    non-inplace calls leaving their source unchanged"""
    cfg = QUICK if run.tier == "quick" else THOROUGH
    data = collect(f"{tag}_{run.tier}", cfg)
    cases = data["cases"]
    jc = [{"net": c["net"], "init": c["init"], "events": [{k: e[k] for k in EVENT_FIELDS} for e in c["events"]]} for c in cases]
    verdicts, results = tla.judge_cases(f"{tag}_repo", "TreeHistoryJudge", jc, chunk=40)
    for res in results:
        run.tlc(res)
    run.cov["traces_validated_against_impl"] += len(jc)
    nbad = 0
    for c, v in zip(cases, verdicts):
        run.count()
        run.nontrivial(("repo-test", c["test"], c["op"], c["args"], str(c["init"]["sliced"])))
        clause, pc, op = v[0], v[1], v[2]
        desc = {"source": "repository test-suite", "test": c["test"], "op": c["op"], "args": c["args"], "eq": c["eq"], "dims": c["dims"],
                "children_before": c["init"]["ch"], "sliced_before": c["init"]["sliced"]}
        is_transition = clause.startswith("transition:")
        is_figure = clause.startswith("figure:") or clause.startswith("init:") or clause == "rebuild-differs"
        if clause != "ok" and ((focus == "figures" and (is_figure or is_transition)) or (focus == "value" and is_transition)):
            diffs = c["events"][pc - 1].get("rebuild_diffs") if 1 <= pc <= len(c["events"]) else c.get("init_rebuild")
            run.violation(f"trace of the repository's own test {c['test']} rejected by TreeHistoryJudge: {clause} at "
                          f"{'the state before' if pc == 0 else 'the state after'} {c['op']}{c['args']} {diffs or ''} eq={c['eq']}",
                          desc, tags={"repo-trace", clause, "op:" + c["op"]})
            nbad += 1
        elif focus == "figures" and c.get("init_rebuild"):
            run.violation(f"in the repository's own test {c['test']} the tree before {c['op']} differs from its from-scratch rebuild: "
                          f"{c['init_rebuild']} eq={c['eq']}", desc, tags={"repo-trace", "rebuild-differs", "op:" + c["op"]})
            nbad += 1
        elif focus == "value" and c.get("source_unchanged") is False:
            run.violation(f"in the repository's own test {c['test']} the call {c['op']}{c['args']} (not in place) changed the tree it "
                          f"was called on", desc, tags={"repo-trace", "aliasing", "op:" + c["op"]})
            nbad += 1
    ops = {}
    for c in cases:
        ops[c["op"]] = ops.get(c["op"], 0) + 1
    run.extra["repo_test_traces"] = {"files": cfg["files"], "calls_seen": data["stats"]["calls"], "cases_judged": len(cases),
                                     "by_operation": ops, "skipped_too_big": data["stats"]["skipped_big"],
                                     "recorder_errors": data["stats"]["errors"], "pytest": data.get("pytest_tail"),
                                     "rejected": nbad}
    if data["stats"]["errors"] > max(5, len(cases) // 10):
        raise tla.MachineryError(f"the trace recorder failed on {data['stats']['errors']} calls")
    return len(cases)


HYPER_QUICK = {"files": ["tests/test_optimizers.py"], "k": "test_hyper_slicer or test_hyper_reconf or test_reusable", "maxn": 4,
               "per_test": 1, "total": 10}
HYPER_THOROUGH = {"files": ["tests/test_optimizers.py", "tests/test_compressed.py", "tests/test_interface.py"],
                  "k": "not chocolate and not optuna and not skopt and not ray and not dask", "maxn": 4, "per_test": 1, "total": 10}


def run_repo_hyper(run, tag):
    """C08 on the repository's own tests: every HyperOptimizer search they make is recorded (harness/repotrace.install_hyper);
    the trial scores, the winner and the count are judged by HyperOptJudge, the winner's recorded figures are compared with
    the figures of the tree handed back"""
    INF = 10**6
    cfg = HYPER_QUICK if run.tier == "quick" else HYPER_THOROUGH
    data = collect(f"{tag}_hyper_{run.tier}", cfg)
    recs = data.get("hyper", [])
    hcases, kept = [], []
    for r in recs:
        run.count()
        run.nontrivial(("repo-hyper", r["test"], r["before"], len(r["scores"])))
        d = {"source": "repository test-suite", "test": r["test"], "class": r["cls"], "max_repeats": r["max_repeats"],
             "max_time": r["max_time"], "scores": r["scores"][:40]}
        scores = r["scores"]
        n = len(scores)
        fin = [x for x in scores if x != float("inf")]
        if not fin:
            continue
        order = sorted(set(fin))
        rank = {x: k + 1 for k, x in enumerate(order)}
        best_id = scores.index(min(fin)) + 1 if r["best_score"] == min(fin) else -1
        early = r["max_time"] != "None"
        requested = r["before"] + r["max_repeats"]
        hcases.append({"M": max(n, 1) if early else requested, "P": max(n, requested, 1),
                       "events": [["submit", i] for i in range(1, n + 1)] + [["report", i] for i in range(1, n + 1)],
                       "score": [rank.get(x, INF) for x in scores] + [INF] * max(0, requested - n), "Inf": INF, "best": best_id,
                       "nscores": n, "rule": "any" if early else "none", "amount": 0})
        kept.append((r, d))
        if r.get("has_tree"):
            if not r.get("complete") or not r.get("same_net"):
                run.violation(f"in the repository's own test {r['test']} the hyper-optimizer handed back a tree that is not a complete "
                              f"tree of the contraction asked about", d, tags={"repo-trace", "wrong-tree"})
            elif "tree_stats" in r and r["recorded"] != r["tree_stats"]:
                run.violation(f"in the repository's own test {r['test']} the winner's recorded figures {r['recorded']} differ from the "
                              f"figures {r['tree_stats']} of the tree handed back", d, tags={"repo-trace", "figures"})
    verdicts, results = tla.judge_cases(f"{tag}_repo_hyper", "HyperOptJudge", hcases, chunk=200)
    for res in results:
        run.tlc(res)
    run.cov["traces_validated_against_impl"] += len(hcases)
    for (r, d), v in zip(kept, verdicts):
        if v[0] != "ok":
            run.violation(f"a HyperOptimizer search of the repository's own test {r['test']} is rejected by HyperOptJudge: {v[0]} "
                          f"(trials {len(r['scores'])}, max_repeats {r['max_repeats']})", d, tags={"repo-trace", v[0]})
    run.extra["repo_test_hyper_searches"] = {"files": cfg["files"], "searches_judged": len(hcases), "pytest": data.get("pytest_tail")}
    return len(hcases)
