"""C13 - in-memory caching is invisible: cached and uncached calls give the same answers.

Design level: MC_Cache_* (with the complete key NoCrossTalk holds; dropping
any one component from the key is refuted - negative instances).  Binding A:
TLC enumerates ALL call sequences of length 3 over a pool of 8 calls that
differ in exactly one component; each is replayed, from cleared caches, through
the cached entry points with caching on; oracle for every call = the same call
with caching off (the statement's oracle) and the definitional value; the
identity of the returned expression objects is judged by TLC (CacheJudge): two
calls may share an object only if they mean the same (Cache!SameMeaning).
"""
import random

import numpy as np

from .. import core, nets, tla, mc

LEVEL = "model_checking"


def _neg(x):
    return -x


def _ident(x):
    return x


def make_pool(rng):
    """8 calls differing from the base in exactly one component"""
    base = nets.Net([[1, 2], [2, 3], [3, 4]], [1, 4], [2, 3, 2, 3], lab={1: "a", 2: "b", 3: "c", 4: "d", 5: "p", 6: "u", 7: "q", 8: "r", 9: "s"})
    L = base.lab

    def call(net, optimize="greedy", kwargs=None):
        return {"net": net, "optimize": optimize, "kwargs": dict(kwargs or {})}
    pool = [call(base)]
    pool.append(call(nets.Net(base.inputs, [4, 1], base.dims, lab=L)))                                  # output order
    pool.append(call(nets.Net(base.inputs, base.output, [2, 3, 2, 2], lab=L)))                           # one size
    pool.append(call(base, optimize=rng.choice(["optimal", [(1, 2), (0, 1)], "auto"])))                  # optimize value
    pool.append(call(base, kwargs=rng.choice([{"strip_exponent": True}, {"prefer_einsum": True},
                                              {"implementation": "autoray"}, {"sort_contraction_indices": True},
                                              {"via": (_ident, _neg)}, {"via": (_ident, _neg)}])))  # one kwarg
    ren = {1: 7, 2: 5, 3: 9, 4: 8}
    dims = [1] * 9
    for a, b in ren.items():
        dims[b - 1] = base.dims[a - 1]
    pool.append(call(nets.Net([[ren[x] for x in t] for t in base.inputs], [ren[x] for x in base.output], dims, lab=L)))  # relabelled
    pool.append(call(nets.Net([base.inputs[1], base.inputs[0], base.inputs[2]], base.output, base.dims, lab=L)))      # tensors reordered
    pool.append(call(nets.Net([base.inputs[0], base.inputs[1], (4, 3)], base.output, base.dims, lab=L)))              # axes swapped
    # sizes swapped between neighbouring labels AND the size dict handed over in swapped key order: the sequence of values
    # of the dict is the same as for the base call, the label -> size mapping is not
    sw = call(nets.Net(base.inputs, base.output, [3, 2, 3, 2], lab=L))
    sw["size_order"] = [2, 1, 4, 3]
    pool.append(sw)
    return pool


def collision_pool():
    """two contractions that differ only by exchanging two labels whose Python hashes are equal (hash(-1) == hash(-2)),
    handed over as they are (canonicalize=False): different meaning, so they may not share a cache entry"""
    lab = {1: -1, 2: 1, 3: -2}
    a = nets.Net([[1, 2], [2, 3]], [1, 3], [2, 3, 2], lab=lab)
    b = nets.Net([[3, 2], [2, 1]], [1, 3], [2, 3, 2], lab=lab)
    return [{"net": a, "optimize": "greedy", "kwargs": {"canonicalize": False}},
            {"net": b, "optimize": "greedy", "kwargs": {"canonicalize": False}}]


def call_record(c):
    net = c["net"]
    used = sorted({x for t in net.inputs for x in t} | set(net.output))
    opt = c["optimize"]
    return {"inputs": [list(t) for t in net.inputs], "output": list(net.output),
            "dims": {x: net.dims[x - 1] for x in used},
            "optimize": opt if isinstance(opt, str) else "path:" + str([tuple(p) for p in opt]),
            "kwargs": {(str(k), str(v)) for k, v in c["kwargs"].items()}}


def seqs_from_tlc(run):
    res = mc.run_mc("MC_Cache_gen", workers=1, module="MC_Cache")
    run.tlc(res)
    seen, out = set(), []
    for v in res.verdicts:
        k = tuple(v[0])
        if k not in seen:
            seen.add(k)
            out.append(list(k))
    return out


def sizes_of(c):
    net = c["net"]
    sd = net.c_sizes()
    if c.get("size_order"):
        sd = {net.lab[ix]: net.dim(ix) for ix in c["size_order"]}
    return sd


def arrays_for(net, rng):
    used = sorted({x for t in net.inputs for x in t})
    return [np.array([rng.randint(-3, 3) for _ in range(int(np.prod([net.dim(x) for x in t])))], dtype=np.float64)
            .reshape([net.dim(x) for x in t]) for t in net.inputs]


def value_of(r):
    if isinstance(r, tuple):
        m, e = r
        return np.asarray(m) * 10.0 ** float(e)
    return np.asarray(r)


def replay_seq(run, ct, rng, pool, seq, entry):
    from cotengra import interface
    interface._PATH_CACHE.clear()
    interface._CONTRACT_EXPR_CACHE.clear()
    events = []
    objs = {}
    d = {"seq": seq, "entry": entry, "pool": [{"eq": f"{c['net'].c_inputs()}->{c['net'].c_output()}", "sizes": str(c["net"].c_sizes()),
                                               "optimize": str(c["optimize"]), "kwargs": c["kwargs"]} for c in pool]}
    entry0 = entry
    for step, i in enumerate(seq):
        if entry0 == "mixed":
            entry = rng.choice(ENTRIES[:-1])
            d.setdefault("entries", []).append(entry)
        c = pool[i - 1]
        net = c["net"]
        opt = c["optimize"]
        kw = dict(c["kwargs"])
        arrays = arrays_for(net, rng)
        arrays_b = arrays_for(net, rng)
        ref = nets_ref(net, arrays)
        sign = -1.0 if "via" in kw else 1.0           # via=(identity, negate): the call means minus the contraction
        ref = sign * ref
        obj, same, ok = 0, True, True
        with core.watchdog(120):
            if entry == "einsum":
                got = ct.einsum(net.eq(), *arrays, optimize=opt, cache_expression=True, **kw)
                unc = ct.einsum(net.eq(), *arrays, optimize=opt, cache_expression=False, **kw)
            elif entry == "array_contract":
                got = ct.array_contract(arrays, net.c_inputs(), net.c_output(), optimize=opt, cache_expression=True, **kw)
                unc = ct.array_contract(arrays, net.c_inputs(), net.c_output(), optimize=opt, cache_expression=False, **kw)
            elif entry in ("array_contract_expression", "einsum_expression"):
                if entry == "array_contract_expression":
                    ex = ct.array_contract_expression(net.c_inputs(), net.c_output(), sizes_of(c), optimize=opt, cache=True, **kw)
                    exu = ct.array_contract_expression(net.c_inputs(), net.c_output(), sizes_of(c), optimize=opt, cache=False, **kw)
                else:
                    ex = ct.einsum_expression(net.eq(), *net.shapes(), optimize=opt, cache=True, **kw)
                    exu = ct.einsum_expression(net.eq(), *net.shapes(), optimize=opt, cache=False, **kw)
                obj = objs.setdefault(id(ex), len(objs) + 1)
                objs["keep%d" % step] = ex           # keep alive so that ids are not recycled
                got, unc = ex(*arrays), exu(*arrays)
                # a cached expression re-applied to NEW arrays of the same shapes
                gb = value_of(ex(*arrays_b))
                refb = sign * nets_ref(net, arrays_b)
                if gb.shape != refb.shape or not np.allclose(gb, refb, rtol=1e-12, atol=1e-12):
                    ok = False
            elif entry == "expression_with_constants":
                # one tensor is a constant folded into the expression; the constant VALUES differ from call to call, so an
                # expression (or folded constant) left over from an earlier call gives a wrong value
                kw.pop("strip_exponent", None)
                ci = rng.randrange(net.N)
                cst = {ci: arrays[ci]}
                rest = [a for k_, a in enumerate(arrays) if k_ != ci]
                ex = ct.array_contract_expression(net.c_inputs(), net.c_output(), sizes_of(c), optimize=opt, cache=True, constants=cst, **kw)
                exu = ct.array_contract_expression(net.c_inputs(), net.c_output(), sizes_of(c), optimize=opt, cache=False, constants=cst, **kw)
                got, unc = ex(*rest), exu(*rest)
                objs["keep%d" % step] = ex
                restb = [a for k_, a in enumerate(arrays_b) if k_ != ci]
                gb = value_of(ex(*restb))
                refb = sign * nets_ref(net, [arrays[k_] if k_ == ci else arrays_b[k_] for k_ in range(net.N)])
                if gb.shape != refb.shape or not np.allclose(gb, refb, rtol=1e-12, atol=1e-12):
                    ok = False
            else:   # array_contract_path
                ckw = {"canonicalize": kw["canonicalize"]} if "canonicalize" in kw else {}
                p = ct.array_contract_path(net.c_inputs(), net.c_output(), sizes_of(c), optimize=opt if opt != "auto" else "greedy", cache=True, **ckw)
                pu = ct.array_contract_path(net.c_inputs(), net.c_output(), sizes_of(c), optimize=opt if opt != "auto" else "greedy", cache=False, **ckw)
                same = tuple(map(tuple, p)) == tuple(map(tuple, pu))
                # the value of the contraction along the returned path (explicit path, nothing cached; options such as `via`
                # are not part of a path request)
                ref = nets_ref(net, arrays)
                got = unc = ct.array_contract(arrays, net.c_inputs(), net.c_output(), optimize=tuple(map(tuple, p)), cache_expression=False)
        g, u = value_of(got), value_of(unc)
        if g.shape != u.shape or not np.array_equal(g, u):
            same = False
        if g.shape != ref.shape or not np.allclose(g, ref, rtol=1e-12, atol=1e-12):
            ok = False
        events.append({"call": i, "obj": obj, "same_as_uncached": bool(same), "value_ok": bool(ok)})
    return {"pool": [call_record(c) for c in pool], "events": events}, d


def nets_ref(net, arrays):
    used = sorted({x for t in net.inputs for x in t} | set(net.output))
    ren = {x: k + 1 for k, x in enumerate(used)}
    n2 = nets.Net([[ren[x] for x in t] for t in net.inputs], [ren[x] for x in net.output], [net.dim(x) for x in used])
    return nets.refeval(n2, arrays)


def container_forms(run, ct, rng):
    """an explicit path handed over in every container form (list / tuple of tuples / lists): the cached entry points
    must answer exactly like the uncached ones (a form the cache cannot hash must simply not be cached)"""
    from cotengra import interface
    net = nets.Net([[1, 2], [2, 3], [3, 4]], [1, 4], [2, 3, 2, 3])
    inp, out, size = net.c_inputs(), net.c_output(), net.c_sizes()
    arrays = arrays_for(net, rng)
    ref = nets.refeval(net, arrays)
    forms = {"list-of-tuples": [(0, 1), (0, 1)], "list-of-lists": [[0, 1], [0, 1]], "tuple-of-tuples": ((0, 1), (0, 1)),
             "tuple-of-lists": ([0, 1], [0, 1]), "list-of-tuples-2": [(1, 2), (0, 1)], "tuple-of-lists-2": ([1, 2], [0, 1])}
    import warnings
    for name, opt in forms.items():
        for entry in ("array_contract_path", "array_contract_expression", "array_contract"):
            interface._PATH_CACHE.clear()
            interface._CONTRACT_EXPR_CACHE.clear()
            d = {"form": name, "entry": entry, "optimize": repr(opt)}
            run.count()
            run.nontrivial(("container-form", name, entry))
            res = {}
            for cached in (True, True, False):
                try:
                    with warnings.catch_warnings():
                        warnings.simplefilter("ignore")
                        if entry == "array_contract_path":
                            r = tuple(map(tuple, ct.array_contract_path(inp, out, size, optimize=opt, cache=cached)))
                        elif entry == "array_contract_expression":
                            r = value_of(ct.array_contract_expression(inp, out, size, optimize=opt, cache=cached)(*arrays)).tolist()
                        else:
                            r = value_of(ct.array_contract(arrays, inp, out, optimize=opt, cache_expression=cached)).tolist()
                except Exception as e:
                    r = "raised " + core.exc_text(e)
                res.setdefault(cached, []).append(r)
            if any(x != res[False][0] for x in res[True]):
                run.violation(f"{entry} with the explicit path {opt!r} ({name}): with caching on -> {res[True]}, with caching off -> "
                              f"{res[False][0]}", d, tags={"container-form", name, entry})
            elif entry != "array_contract_path" and not isinstance(res[False][0], str) and \
                    not np.allclose(np.asarray(res[False][0]), ref):
                run.violation(f"{entry} with the explicit path {opt!r}: wrong value", d, tags={"container-form", name, entry, "value"})


def nested_and_unhashable(run, ct, rng, count):
    """(1) a cached expression entered again while it is running (the implementation callables are user code: here they call
    the same cached contraction on other arrays before the outer call has finished) - both answers must be right;
    (2) several DIFFERENT contractions whose descriptions cannot be hashed (explicit path as list of lists, `via` given as a
    list), one after the other without clearing the caches: none may receive another one's expression"""
    import warnings
    from cotengra import interface
    pool = [n for n in nets.net_pool(rng, 30, nmin=3, nmax=5, weird=False) if n.K >= 2 and nets.connected(n)][:8]
    for _ in range(count):
        net = rng.choice(pool)
        inp, out, size = net.c_inputs(), net.c_output(), net.c_sizes()
        interface._PATH_CACHE.clear()
        interface._CONTRACT_EXPR_CACHE.clear()
        a1, a2 = arrays_for(net, rng), arrays_for(net, rng)
        r1, r2 = nets.refeval(net, a1), nets.refeval(net, a2)
        d = {"net": net.to_json(), "kind": "nested-use-of-a-cached-expression"}
        run.count()
        run.nontrivial(("nested", net.eq(), rng.random()))
        st = {"calls": 0, "depth": 0, "inner": None, "at": rng.randint(1, max(1, net.N - 1))}

        def maybe_nest():
            st["calls"] += 1
            if st["depth"] == 0 and st["inner"] is None and st["calls"] >= st["at"]:
                st["depth"] = 1
                try:
                    st["inner"] = value_of(ct.array_contract(a2, inp, out, optimize="greedy", implementation=impl, cache_expression=True))
                finally:
                    st["depth"] = 0

        def es(eq, *arrs):
            r_ = np.einsum(eq, *arrs)
            maybe_nest()
            return r_

        def td(x, y, axes):
            r_ = np.tensordot(x, y, axes)
            maybe_nest()
            return r_
        impl = (es, td)
        try:
            with core.watchdog(60):
                ct.array_contract(a1, inp, out, optimize="greedy", implementation=impl, cache_expression=True)   # fills the cache
                st.update(calls=0, inner=None)
                outer = value_of(ct.array_contract(a1, inp, out, optimize="greedy", implementation=impl, cache_expression=True))
        except Exception as e:
            run.violation(f"a cached expression entered again while running raised {core.exc_text(e)} eq={net.eq()}", d,
                          tags={"nested-expression", "raised"})
            continue
        if st["inner"] is not None:
            if outer.shape != r1.shape or not np.allclose(outer, r1) or st["inner"].shape != r2.shape or not np.allclose(st["inner"], r2):
                run.violation(f"a cached expression entered again while running: outer call {'right' if np.allclose(outer, r1) else 'WRONG'}, "
                              f"nested call {'right' if np.allclose(st['inner'], r2) else 'WRONG'} eq={net.eq()}", d,
                              tags={"nested-expression", "value"})
        # (2) unhashable descriptions, caches NOT cleared in between
        others = [n for n in pool if n.N == net.N and n is not net][:2]
        seq = [net] + others + [net]
        for k, nb in enumerate(seq):
            arrs = arrays_for(nb, rng)
            ref = nets.refeval(nb, arrs)
            p = [list(x) for x in ct.array_contract_path(nb.c_inputs(), nb.c_output(), nb.c_sizes(), optimize="greedy", cache=False)]
            kw = rng.choice([{"optimize": p}, {"optimize": "greedy", "via": [np.asarray, np.asarray]}])
            d2 = {"net": nb.to_json(), "kind": "unhashable-description", "step": k, "kw": sorted(kw)}
            run.count()
            try:
                with warnings.catch_warnings():
                    warnings.simplefilter("ignore")
                    got = value_of(ct.array_contract(arrs, nb.c_inputs(), nb.c_output(), cache_expression=True, **kw))
            except Exception as e:
                run.violation(f"array_contract with an unhashable description ({sorted(kw)}) raised {core.exc_text(e)} eq={nb.eq()}", d2,
                              tags={"unhashable-description", "raised"})
                break
            if got.shape != ref.shape or not np.allclose(got, ref):
                run.violation(f"array_contract with an unhashable description ({sorted(kw)}) as call {k + 1} of a sequence of different "
                              f"contractions gives a wrong value: eq={nb.eq()} (sequence {[x.eq() for x in seq]})", d2,
                              tags={"unhashable-description", "value"})
                break


def edge_path_pairs(run, ct, rng, count):
    """the same explicit EDGE path (a tuple of index labels) asked for differently wired networks with the same number of
    tensors, caches kept in between: what an edge path means depends on the wiring"""
    from cotengra import interface
    pool = [n for n in nets.net_pool(rng, 40, nmin=3, nmax=5, weird=False) if n.K >= 3 and nets.connected(n)]
    for _ in range(count):
        a = rng.choice(pool)
        order = list(range(a.N))
        rng.shuffle(order)
        # b: the same labels and sizes wired differently (tensors permuted and one index moved to another tensor)
        inputs_b = [list(a.inputs[i]) for i in order]
        t_from = rng.randrange(a.N)
        if len(inputs_b[t_from]) > 1:
            ix = inputs_b[t_from].pop(rng.randrange(len(inputs_b[t_from])))
            inputs_b[(t_from + 1) % a.N].append(ix)
        b = nets.Net(inputs_b, a.output, a.dims, lab=a.lab)
        ep = tuple(a.lab[ix] for ix in rng.sample(range(1, a.K + 1), a.K))
        interface._PATH_CACHE.clear()
        interface._CONTRACT_EXPR_CACHE.clear()
        ckw = {"canonicalize": False} if rng.random() < 0.6 else {}      # labels taken as they are / renamed by appearance
        for k, net in enumerate((a, b, a, b)):
            d = {"net": net.to_json(), "edge_path": list(ep), "step": k, "kw": ckw}
            run.count()
            run.nontrivial(("edge-path-pair", a.eq(), b.eq(), ep, k))
            try:
                pc = tuple(map(tuple, ct.array_contract_path(net.c_inputs(), net.c_output(), net.c_sizes(), optimize=ep, cache=True, **ckw)))
                pu = tuple(map(tuple, ct.array_contract_path(net.c_inputs(), net.c_output(), net.c_sizes(), optimize=ep, cache=False, **ckw)))
            except Exception as e:
                run.violation(f"array_contract_path with an explicit edge path raised {core.exc_text(e)} eq={net.eq()}", d,
                              tags={"edge-path-pair", "raised"})
                break
            if pc != pu:
                run.violation(f"array_contract_path(optimize=<edge path {ep}>): with caching on -> {pc}, with caching off -> {pu} for "
                              f"eq={net.eq()} asked as call {k + 1} after the differently wired {a.eq() if net is b else b.eq()}", d,
                              tags={"edge-path-pair", "path"})
                break


def dispatch_memo(run, ct, rng, count):
    """what `optimize` MEANS must not be remembered per container type: explicit linear paths and explicit edge paths (both
    tuples, or both lists) asked one after the other in one process, in both orders; each answer is compared with the
    stateless converters (the linear path itself / path_basic.edge_path_to_linear)"""
    from cotengra import interface
    from cotengra.pathfinders.path_basic import edge_path_to_linear
    pool = [n for n in nets.net_pool(rng, 40, nmin=3, nmax=5, weird=False) if n.K >= 3 and nets.connected(n)]
    for _ in range(count):
        net = rng.choice(pool)
        inp, out, size = net.c_inputs(), net.c_output(), net.c_sizes()
        lin = tuple(tuple(p) for p in nets.ssa_to_linear(nets.tree_to_ssa(nets.rand_tree(rng, net.N), net.N, rng), net.N))
        ep = tuple(net.lab[ix] for ix in rng.sample(range(1, net.K + 1), net.K))
        want = {"linear": tuple(tuple(sorted(p)) for p in lin), "edge": tuple(tuple(sorted(p)) for p in edge_path_to_linear(ep, inp))}
        # start like a fresh process does (nothing remembered), then ask in a random order
        getattr(interface, "_find_path_handlers", {}).clear()
        interface._PATH_CACHE.clear()
        cont = rng.choice([tuple, list])
        seq = rng.choice([["linear", "edge"], ["edge", "linear"], ["linear", "edge", "linear"], ["edge", "linear", "edge"]])
        for k, kind in enumerate(seq):
            opt = cont(lin if kind == "linear" else ep)
            entry = rng.choice(["find_path", "array_contract_path", "array_contract_path(cache=False)"])
            d = {"net": net.to_json(), "sequence": seq, "step": k, "container": cont.__name__, "entry": entry,
                 "linear": [list(p) for p in lin], "edge_path": list(ep)}
            run.count()
            run.nontrivial(("dispatch-memo", net.eq(), str(seq), k, cont.__name__, entry, str(lin), ep))
            try:
                if entry == "find_path":
                    got = interface.find_path(inp, out, size, optimize=opt)
                else:
                    got = ct.array_contract_path(inp, out, size, optimize=opt, canonicalize=False, cache=entry == "array_contract_path")
                # (which position of a step is written first is not part of what a path means)
                got = tuple(tuple(sorted(p)) for p in got)
            except Exception as e:
                run.violation(f"{entry} with an explicit {kind} path ({cont.__name__}) raised {core.exc_text(e)} as call {k + 1} of {seq} "
                              f"eq={net.eq()}", d, tags={"dispatch-memo", "raised"})
                break
            if got != want[kind]:
                run.violation(f"{entry}(optimize=<explicit {kind} path, {cont.__name__}>) as call {k + 1} of the sequence {seq} in one "
                              f"process returned {got}, the stateless conversion gives {want[kind]} | eq={net.eq()}", d,
                              tags={"dispatch-memo", "path"})
                break


def object_histories(run, ct, rng, count, kinds=("tree-mutated", "tree-mutated", "constants-mutated")):
    from cotengra import interface
    pool = [n for n in nets.net_pool(rng, 30, nmin=3, nmax=5, weird=False) if n.K >= 2 and nets.connected(n)][:10]
    for _ in range(count):
        net = rng.choice(pool)
        interface._PATH_CACHE.clear()
        interface._CONTRACT_EXPR_CACHE.clear()
        inp, out, size = net.c_inputs(), net.c_output(), net.c_sizes()
        kind = rng.choice(list(kinds))
        d = {"net": net.to_json(), "kind": kind}
        run.count()
        run.nontrivial(("object-history", kind, net.eq(), rng.random()))
        try:
            with core.watchdog(120):
                if kind == "tree-mutated":
                    # (labels kept as they are: the harness addresses indices of this tree by their own names)
                    tree = ct.array_contract_tree(inp, out, size, optimize="greedy", canonicalize=False)
                    steps = []
                    for step in range(3):
                        arrays = arrays_for(net, rng)
                        got = value_of(ct.array_contract(arrays, inp, out, optimize=tree, cache_expression=True))
                        unc = value_of(ct.array_contract(arrays, inp, out, optimize=tree, cache_expression=False))
                        ex = ct.array_contract_expression(inp, out, size, optimize=tree, cache=True)
                        gex = value_of(ex(*arrays))
                        pth = ct.array_contract_path(inp, out, size, optimize=tree, cache=True)
                        pthu = ct.array_contract_path(inp, out, size, optimize=tree, cache=False)
                        inv = net._inv()
                        fix = {inv[i]: si.project for i, si in tree.sliced_inds.items() if si.project is not None}
                        ref = nets.refeval(net, arrays, fix=fix, keep_fixed_output=True)
                        steps.append(sorted(tree.sliced_inds))
                        for nm, g in (("array_contract(cache_expression=True)", got), ("array_contract(cache_expression=False)", unc),
                                      ("array_contract_expression(cache=True)", gex)):
                            if g.shape != ref.shape or not np.allclose(g, ref, rtol=1e-12, atol=1e-12):
                                run.violation(f"{nm} with optimize=<tree> after the tree was changed in place (history of sliced sets "
                                              f"{steps}) does not give the contraction the tree now denotes: eq={net.eq()}", d,
                                              tags={"object-history", kind, "value"})
                                raise StopIteration
                        if tuple(map(tuple, pth)) != tuple(map(tuple, pthu)):
                            run.violation(f"array_contract_path(optimize=<tree>, cache=True) returns {pth} but uncached {pthu} after the "
                                          f"tree was changed in place: eq={net.eq()}", d, tags={"object-history", kind, "path"})
                            raise StopIteration
                        # change the very same object
                        how = rng.choice(["project", "slice", "reconfigure", "restore"])
                        free = [ix for ix in range(1, net.K + 1) if net.lab[ix] not in tree.sliced_inds and net.on(ix)]
                        if how == "project" and free:
                            ix = rng.choice(free)
                            tree.remove_ind_(net.lab[ix], project=rng.randrange(net.dim(ix)))
                        elif how == "slice" and free:
                            tree.remove_ind_(net.lab[rng.choice(free)])
                        elif how == "restore" and tree.sliced_inds:
                            tree.restore_ind_(rng.choice(list(tree.sliced_inds)))
                        else:
                            tree.subtree_reconfigure_(subtree_size=3, maxiter=3, seed=rng.randrange(100))
                elif kind == "tree-reused-with-other-options":
                    # one tree object handed in as `optimize` for several calls whose options differ: the recipes the tree
                    # memoised for an earlier call must not leak into a later one
                    tree = ct.array_contract_tree(inp, out, size, optimize=rng.choice(["greedy", "optimal"]), canonicalize=False)
                    OPTS = [{}, {"sort_contraction_indices": True}, {"prefer_einsum": True}, {"sort_contraction_indices": True, "prefer_einsum": True}]
                    hist = []
                    for step in range(3):
                        # (first compiled without sorting, then with: the transition that re-derives every index order)
                        kw = rng.choice(OPTS) if step == 2 else rng.choice(OPTS[1::2] if step else OPTS[0::2])
                        hist.append(kw)
                        arrays = arrays_for(net, rng)
                        ref = nets.refeval(net, arrays)
                        for nm, fn in (("array_contract", lambda: ct.array_contract(arrays, inp, out, optimize=tree, cache_expression=rng.random() < 0.5, **kw)),
                                       ("array_contract_expression", lambda: ct.array_contract_expression(inp, out, size, optimize=tree, cache=rng.random() < 0.5, **kw)(*arrays))):
                            g = value_of(fn())
                            if g.shape != ref.shape or not np.allclose(g, ref, rtol=1e-12, atol=1e-12):
                                run.violation(f"{nm} with optimize=<one tree object> called with the option history {hist} gives a wrong "
                                              f"value at call {step + 1}: eq={net.eq()}", d, tags={"object-history", kind, "value"})
                                raise StopIteration
                else:
                    if net.N < 3:
                        continue
                    cis = sorted(rng.sample(range(net.N), 2))
                    arrays = arrays_for(net, rng)
                    consts = {ci: arrays[ci] for ci in cis}         # the SAME array objects are handed over both times
                    rest = [a for k_, a in enumerate(arrays) if k_ not in cis]
                    for step in range(2):
                        ex = ct.array_contract_expression(inp, out, size, optimize="greedy", constants=consts, cache=True)
                        got = value_of(ex(*rest))
                        ref = nets.refeval(net, arrays)
                        if got.shape != ref.shape or not np.allclose(got, ref, rtol=1e-12, atol=1e-12):
                            run.violation(f"array_contract_expression(constants=..., cache=True) built {'again after the constant arrays were '
                                          'updated in place' if step else 'for the first time'} gives a wrong value: eq={net.eq()} "
                                          f"constants at {cis}", d, tags={"object-history", kind, "value"})
                            break
                        for ci in cis:
                            arrays[ci][...] = np.array([rng.randint(-3, 3) for _ in range(arrays[ci].size)],
                                                       dtype=np.float64).reshape(arrays[ci].shape)
        except StopIteration:
            continue
        except Exception as e:
            run.violation(f"object history ({kind}) raised {core.exc_text(e)} eq={net.eq()}", d, tags={"object-history", kind, "raised"})


ENTRIES = ["einsum", "array_contract", "array_contract_expression", "einsum_expression", "array_contract_path",
           "expression_with_constants", "mixed"]


def run(run):
    import cotengra as ct
    rng = random.Random(run.seed * 14009 + 13)
    quick = run.tier == "quick"
    run.extra["mc_instances"] = {}
    res = mc.run_mc("MC_Cache_none", workers=2, module="MC_Cache")
    run.tlc(res)
    run.extra["mc_instances"]["MC_Cache_none"] = {"states": res.distinct, "exhaustive": True}
    for o in ("output", "dims", "optimize", "kwargs", "inputs"):
        try:
            mc.run_mc("MC_Cache_" + o, workers=1, module="MC_Cache")
            raise tla.MachineryError(f"negative instance MC_Cache_{o} was not refuted (vacuity)")
        except tla.MachineryError as e:
            if "NoCrossTalk" not in str(e):
                raise
            run.extra["mc_instances"][f"MC_Cache_{o} (negative)"] = {"violates": "NoCrossTalk", "as_expected": True}
    # CacheObj.tla: keys must be descriptions, not their hashes (F25), and mutable objects must not be cached by identity
    res = mc.run_mc("MC_CacheObj_code", workers=2, module="MC_CacheObj")
    run.tlc(res)
    run.extra["mc_instances"]["MC_CacheObj_code"] = {"states": res.distinct, "exhaustive": True}
    for nm, prop in (("MC_CacheObj_hash", "InvisibleState"), ("MC_CacheObj_identity", "ObjFresh")):
        try:
            mc.run_mc(nm, workers=1, module="MC_CacheObj", coverage=False)
            raise tla.MachineryError(f"negative instance {nm} was not refuted (vacuity)")
        except tla.MachineryError as e:
            if prop not in str(e):
                raise
            run.extra["mc_instances"][nm + " (negative)"] = {"violates": prop, "as_expected": True}
    seqs = seqs_from_tlc(run)
    run.extra["sequences_enumerated_by_tlc"] = len(seqs)
    if len(seqs) != 729:
        raise tla.MachineryError(f"expected all 9^3 sequences from TLC, got {len(seqs)}")
    cases, descs = [], []
    for entry in ENTRIES:
        use = seqs if not quick else rng.sample(seqs, 60)
        pool = make_pool(rng)
        for seq in use:
            run.count()
            run.nontrivial((entry, tuple(seq), str(pool[3]["optimize"]), str(pool[4]["kwargs"])))
            try:
                case, d = replay_seq(run, ct, rng, pool, seq, entry)
            except Exception as e:
                run.violation(f"{entry}: sequence {seq} raised {core.exc_text(e)}", {"seq": seq, "entry": entry}, tags={"raised", entry})
                continue
            cases.append(case)
            descs.append(d)
    # an explicit ContractionTree (or optimizer object) as `optimize`, changed in place between calls; constants changed in
    # place between two builds of an expression: the cached entry points must answer like the uncached ones
    object_histories(run, ct, rng, 12 if quick else 120)
    object_histories(run, ct, rng, 15 if quick else 150, kinds=("tree-reused-with-other-options",))
    container_forms(run, ct, rng)
    nested_and_unhashable(run, ct, rng, 10 if quick else 100)
    edge_path_pairs(run, ct, rng, 12 if quick else 150)
    dispatch_memo(run, ct, rng, 12 if quick else 150)
    # labels with colliding hashes, not canonicalised: every sequence of length 3 over the two calls
    cpool = collision_pool()
    for entry in ("array_contract", "array_contract_expression", "array_contract_path", "expression_with_constants"):
        for seq in ([1, 2, 1], [2, 1, 2], [1, 1, 2], [2, 2, 1], [1, 2, 2], [2, 1, 1]):
            run.count()
            run.nontrivial((entry, tuple(seq), "colliding-labels"))
            try:
                case, d = replay_seq(run, ct, rng, cpool, seq, entry)
            except Exception as e:
                run.violation(f"{entry}: sequence {seq} over labels with equal hashes raised {core.exc_text(e)}",
                              {"seq": seq, "entry": entry}, tags={"raised", entry, "colliding-labels"})
                continue
            d["colliding"] = True
            cases.append(case)
            descs.append(d)
    cfg = "INIT JInit\nNEXT JNext\nCHECK_DEADLOCK FALSE\n"
    from concurrent.futures import ThreadPoolExecutor
    chunks = [list(range(a, min(a + 150, len(cases)))) for a in range(0, len(cases), 150)]

    def one(k):
        return tla.judge(f"c13_{run.tier}_{k}", "CacheJudge", {"Cases": [cases[i] for i in chunks[k]]}, cfg_text=cfg)
    with ThreadPoolExecutor(8) as ex:
        outs = list(ex.map(one, range(len(chunks))))
    for idx, res in zip(chunks, outs):
        run.tlc(res, traces=len(idx))
        got = {v[0]: v[1:] for v in res.verdicts}
        for j, i in enumerate(idx):
            v = got[j + 1]
            d = descs[i]
            if v[0] != "ok":
                n = v[1]
                call = d["pool"][d["seq"][n - 1] - 1]
                run.violation(f"{d['entry']}: {v[0]} at call {n} of sequence {d['seq']}: {call} (events={cases[i]['events']})", d,
                              tags={v[0], d["entry"]} | ({"colliding-labels"} if d.get("colliding") else set()))
            else:
                run.sample({"entry": d["entry"], "sequence": d["seq"], "calls": [d["pool"][k - 1] for k in d["seq"]],
                            "events": cases[i]["events"], "verdict": "ok"})
    run.cov["exhaustive"] = not quick
    run.cov["rule"] = ("all 729 call sequences of length 3 (enumerated by TLC from Cache.tla) over a pool of 9 calls differing in exactly "
                       "one component (output order, one size, optimize value incl. explicit path, one option kwarg, relabelling, tensor "
                       "order, axis order) x 6 cached entry points (incl. expressions with folded constants) + a mode mixing the entry points inside a sequence (quick: 60 sampled sequences each); caches cleared before each "
                       "sequence; distinct by (entry point, sequence, pool variant)")


def replay(run, d):
    raise tla.MachineryError("C13 replay: rerun ./check C13 with the same VERIF_SEED")
