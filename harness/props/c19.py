"""C19 - exponent stripping preserves the value and survives scales that overflow floats.

Oracle: inputs are T_t = I_t * 10^(s_t) with positive integer I_t; every term of
the einsum contains exactly one entry of each tensor, so the true result is
Einsum(I) * 10^(sum s_t) EXACTLY - Einsum(I) is the specification's value
(TLC-evaluated for a sample, the harness evaluator cross-checked by TLC for
the rest).  Design level: MC_Magnitude (with stripping every raw product stays
within 2 * 100 + slack decades; without it the bound is refuted).  Binding:
trees x sliced sets (inner and output) x scale vectors in [-100, 100];
mantissa * 10^(exponent - sum s) is compared with Einsum(I) (rtol 1e-9, all
finite); the arrays really handed to the pairwise kernels are recorded and the
magnitude trace is judged by TLC (MagnitudeJudge).
"""
import math
import random

import numpy as np

from .. import core, nets, observe, tla, mc

LEVEL = "model_checking"


class MagRecorder:
    def __init__(self):
        self.calls = []

    @staticmethod
    def lg(x):
        m = float(np.max(np.abs(x))) if np.size(x) else 0.0
        if m == 0.0 or not math.isfinite(m):
            return None
        return int(round(100 * math.log10(m)))

    def einsum(self, eq, *arrays):
        out = np.einsum(eq, *arrays)
        if len(arrays) == 2:
            self.calls.append((self.lg(arrays[0]), self.lg(arrays[1]), self.lg(out)))
        return out

    def tensordot(self, a, b, axes):
        out = np.tensordot(a, b, axes)
        self.calls.append((self.lg(a), self.lg(b), self.lg(out)))
        return out


def pos_arrays(net, rng):
    return [np.array([rng.randint(1, 4) for _ in range(int(np.prod(s)))], dtype=np.float64).reshape(s) for s in net.shapes()]


def run(run):
    import cotengra as ct
    rng = random.Random(run.seed * 17011 + 19)
    quick = run.tier == "quick"
    run.extra["mc_instances"] = {}
    res = mc.run_mc("MC_Magnitude_strip", workers=4, module="MC_Magnitude")
    run.tlc(res)
    run.extra["mc_instances"]["MC_Magnitude_strip"] = {"states": res.distinct, "exhaustive": True}
    try:
        mc.run_mc("MC_Magnitude_nostrip", workers=1, module="MC_Magnitude")
        raise tla.MachineryError("negative instance MC_Magnitude_nostrip was not refuted (vacuity)")
    except tla.MachineryError as e:
        if "OperandsBounded" not in str(e) and "InRange" not in str(e):
            raise
        run.extra["mc_instances"]["MC_Magnitude_nostrip (negative)"] = {"refuted": True}
    pool = nets.net_pool(rng, 24 if quick else 150, nmin=2, nmax=6)
    mag_cases, mag_descs, val_cases = [], [], []
    for net in pool:
        trees = [nets.rand_tree(rng, net.N) for _ in range(3 if quick else 8)]
        for tr in trees:
            ssa = nets.tree_to_ssa(tr, net.N, rng)
            for _ in range(3 if quick else 6):
                ixs = list(range(1, net.K + 1))
                rng.shuffle(ixs)
                nsl = rng.choice([0, 0, 1, 2, 3])
                sl = [ix for ix in ixs[:nsl]]
                if np.prod([net.dim(ix) for ix in sl] + [1]) > 18:
                    sl = sl[:1]
                pat = rng.random()
                if pat < 0.2:
                    scales = [-100] * net.N            # total far below the smallest double
                elif pat < 0.4:
                    scales = [100] * net.N             # total far above the largest double
                elif pat < 0.5:
                    scales = [(-100 if t % 2 else 100) for t in range(net.N)]
                else:
                    scales = [rng.choice([-100, -100, -37, -3, 0, 5, 42, 100, 100]) if rng.random() < 0.8 else rng.randint(-100, 100)
                              for _ in range(net.N)]
                I = pos_arrays(net, rng)
                with np.errstate(all="ignore"):
                    arrays = [a * 10.0 ** s for a, s in zip(I, scales)]
                S = sum(scales)
                ref = nets.refeval(net, I)
                d = {"net": net.to_json(), "ssa": [list(p) for p in ssa], "sliced": sl, "scales": scales}
                run.count()
                run.nontrivial((net.eq(), str(ssa), str(sl), str(scales)))
                try:
                    with core.watchdog(120), np.errstate(all="ignore"):
                        tree = observe.build_tree(ct, net, ssa)
                        for ix in sl:
                            tree.remove_ind_(net.lab[ix])
                        opts = rng.choice([{}, {"prefer_einsum": True}, {"order": "dfs"}, {"check_zero": True}])
                        m, e = tree.contract(arrays, strip_exponent=True, **opts)
                        rec = MagRecorder()
                        m2, e2 = tree.contract(arrays, strip_exponent=True, implementation=(rec.einsum, rec.tensordot))
                        m3, e3 = ct.array_contract(arrays, net.c_inputs(), net.c_output(), strip_exponent=True,
                                                   optimize=rng.choice(["greedy", "auto"]))
                        plain = tree.contract(arrays)
                        # stripping asked for per CALL on objects built without it: a cached expression and the tree's own
                        # contractor (unsliced trees only: a contractor executes one slice)
                        percall = []
                        ex_ = ct.array_contract_expression(net.c_inputs(), net.c_output(), net.c_sizes(), optimize="greedy")
                        percall.append(("array_contract_expression(...)(*arrays, strip_exponent=True)", ex_(*arrays, strip_exponent=True)))
                        # the interface entry points handed THIS (possibly sliced) tree: stripping must happen inside every slice
                        percall.append(("array_contract(optimize=<this tree>)", ct.array_contract(
                            arrays, net.c_inputs(), net.c_output(), optimize=tree, strip_exponent=True, cache_expression=rng.random() < 0.5)))
                        ex2 = ct.array_contract_expression(net.c_inputs(), net.c_output(), net.c_sizes(), optimize=tree,
                                                           strip_exponent=True, cache=rng.random() < 0.5)
                        percall.append(("array_contract_expression(optimize=<this tree>, strip_exponent=True)(*arrays)", ex2(*arrays)))
                        if not sl:
                            percall.append(("tree.get_contractor()(*arrays, strip_exponent=True)",
                                            tree.get_contractor()(*arrays, strip_exponent=True)))
                        # the manual workflow: slices materialised once (stripped) and gathered more than once
                        manual = None
                        if sl and tree.nslices <= 18:
                            slices = [tree.contract_slice(arrays, i_, strip_exponent=True) for i_ in range(tree.nslices)]
                            g1 = tree.gather_slices(slices)
                            g2 = tree.gather_slices(slices)
                            manual = (g1, g2)
                except Exception as ex:
                    run.violation(f"strip_exponent contraction raised {core.exc_text(ex)} eq={net.eq()} sliced={sl} scales={scales}", d,
                                  tags={"raised"})
                    continue
                overflowed = not np.all(np.isfinite(np.asarray(plain))) or (np.any(np.asarray(plain) == 0) and np.all(ref > 0))
                for nm, (mm, ee) in [("tree.contract", (m, e)), ("tree.contract(recording implementation)", (m2, e2)),
                                     ("array_contract", (m3, e3))] + \
                        ([("gather_slices(materialised stripped slices)", manual[0]),
                          ("gather_slices(the same materialised slices, gathered again)", manual[1])] if manual else []) + percall:
                    mm = np.asarray(mm, dtype=np.float64)
                    ok = np.all(np.isfinite(mm)) and math.isfinite(float(ee))
                    if ok:
                        try:
                            with np.errstate(all="ignore"):
                                val = mm * 10.0 ** (float(ee) - S)
                            ok = val.shape == ref.shape and np.allclose(val, ref, rtol=1e-9, atol=0)
                        except OverflowError:
                            ok = False      # the exponent is hundreds of decades away from the exact result
                    if not ok:
                        run.violation(f"{nm}(strip_exponent=True): mantissa*10^exponent differs from the exact result or is not finite: "
                                      f"eq={net.eq()} dims={net.dims} ssa={ssa} sliced={sl} scales={scales} exponent={ee} "
                                      f"(plain contraction {'overflows/underflows' if overflowed else 'is representable'})", d,
                                      tags={"value", "plain-overflows" if overflowed else "plain-representable"})
                        break
                # magnitude trace
                steps = []
                contr = [c_ for c_ in tree.get_contractor(strip_exponent=True).contractions if c_[1] is not None]
                per_slice = len(contr)
                for k, (l_, r_, o_) in enumerate(rec.calls):
                    p, l, r = contr[k % per_slice][:3] if per_slice else (None, None, None)
                    if None in (l_, r_, o_):
                        continue
                    steps.append({"l": l_, "r": r_, "out": o_, "lleaf": len(l) == 1, "rleaf": len(r) == 1})
                if steps:
                    mag_cases.append({"bound": 10000, "steps": steps})
                    mag_descs.append(d)
                if rng.random() < (0.1 if quick else 0.03) and nets.fits32(ref) and ref.size <= 64 and all(np.all(a <= 4) for a in I):
                    pass
    # ---- exactly vanishing slices: a tensor has zero slabs along a sliced index, so some slices are exactly zero while
    #      the total is not; with check_zero=True (the documented way to survive zero intermediates) the stripped result
    #      must still equal the plain one
    for net in pool:
        if net.N < 2 or net.K < 1:
            continue
        for _ in range(2 if quick else 4):
            ix = rng.randint(1, net.K)
            if net.dim(ix) < 3 or not net.on(ix):
                continue
            ssa = nets.tree_to_ssa(nets.rand_tree(rng, net.N), net.N, rng)
            I = pos_arrays(net, rng)
            t = rng.choice(net.on(ix))
            zero_vals = rng.sample(range(net.dim(ix)), net.dim(ix) - 1)      # all but one value vanish (>= 2 zero slices)
            ax = net.inputs[t].index(ix)
            sel = [slice(None)] * I[t].ndim
            for v in zero_vals:
                sel[ax] = v
                I[t][tuple(sel)] = 0.0
            ref = nets.refeval(net, I)
            if not np.all(ref != 0):
                continue
            # ordinary magnitudes, or every tensor scaled so that the total leaves the double range (the exponent of a
            # vanishing slice must not take part in the common exponent of the live ones)
            scales = rng.choice([[0] * net.N, [0] * net.N, [-100] * net.N, [100] * net.N,
                                 [rng.choice([-100, -60, 0, 60, 100]) for _ in range(net.N)]])
            if net.N >= 4 and rng.random() < 0.4:
                scales = [-100] * net.N         # total below the smallest double (per-tensor scales stay within the statement's range)
            S = sum(scales)
            with np.errstate(all="ignore"):
                arrays = [a * 10.0 ** sc for a, sc in zip(I, scales)]
            d = {"net": net.to_json(), "ssa": [list(p) for p in ssa], "sliced": [ix], "zero_slab": [t, ix, zero_vals], "scales": scales}
            run.count()
            run.nontrivial(("zero-slices", net.eq(), str(ssa), ix, str(zero_vals), str(scales)))
            stags = {"exact-zero-slices", "output-sliced" if ix in net.output else "inner-sliced",
                     "scaled" if any(scales) else "unscaled"}
            try:
                with core.watchdog(60), np.errstate(all="ignore"):
                    tree = observe.build_tree(ct, net, ssa)
                    tree.remove_ind_(net.lab[ix])
                    if rng.random() < 0.5:
                        try:
                            tree.contract(arrays, strip_exponent=True)      # the unchecked call first (its result is not used)
                        except Exception:
                            pass
                    m, e = tree.contract(arrays, strip_exponent=True, check_zero=True)
                    mm = np.asarray(m, dtype=np.float64)
                    ok = np.all(np.isfinite(mm)) and math.isfinite(float(e))
                    if ok:
                        try:
                            val = mm * 10.0 ** (float(e) - S)
                            ok = val.shape == ref.shape and np.allclose(val, ref, rtol=1e-9, atol=0)
                        except OverflowError:
                            ok = False
            except Exception as ex:
                run.violation(f"strip_exponent + check_zero with exactly vanishing slices raised {core.exc_text(ex)} eq={net.eq()} "
                              f"sliced={net.lab[ix]} zero slab of tensor {t} at values {zero_vals} scales={scales}", d,
                              tags=stags | {"raised"})
                continue
            if not ok:
                run.violation(f"strip_exponent + check_zero: mantissa {mm.tolist()} x 10^{e} differs from the exact non-zero result "
                              f"{ref.tolist()} x 10^{S} when >= 2 slices vanish exactly: eq={net.eq()} dims={net.dims} ssa={ssa} "
                              f"sliced={net.lab[ix]} zero slab of tensor {t} at values {zero_vals} scales={scales}"[:700], d,
                              tags=stags | {"value"})
    # ---- exactly CANCELLING leading slices followed by much smaller ones: slab 0 of a tensor along the sliced index is the
    #      negative of slab 1 (so slices 0 and 1 cancel exactly), the other slabs are 1e-20 times smaller: the whole
    #      answer is the contribution of the small slabs
    for net in pool:
        if net.N < 2 or net.K < 1:
            continue
        for _ in range(2 if quick else 4):
            ix = rng.randint(1, net.K)
            if net.dim(ix) < 3 or not net.on(ix):
                continue
            ssa = nets.tree_to_ssa(nets.rand_tree(rng, net.N), net.N, rng)
            I = pos_arrays(net, rng)
            t = rng.choice(net.on(ix))
            if net.inputs[t].count(ix) != 1:
                continue
            ax = net.inputs[t].index(ix)
            sel0, sel1 = [slice(None)] * I[t].ndim, [slice(None)] * I[t].ndim
            sel0[ax], sel1[ax] = 0, 1
            I[t][tuple(sel1)] = -I[t][tuple(sel0)]
            # every other tensor carrying the index looks the same at values 0 and 1, so that slice 1 = -slice 0 exactly
            skip = False
            for t2 in net.on(ix):
                if t2 == t:
                    continue
                if net.inputs[t2].count(ix) != 1:
                    skip = True
                    break
                ax2 = net.inputs[t2].index(ix)
                a0, a1 = [slice(None)] * I[t2].ndim, [slice(None)] * I[t2].ndim
                a0[ax2], a1[ax2] = 0, 1
                I[t2][tuple(a1)] = I[t2][tuple(a0)]
            if skip:
                continue
            for v in range(2, net.dim(ix)):
                selv = [slice(None)] * I[t].ndim
                selv[ax] = v
                I[t][tuple(selv)] = I[t][tuple(selv)] * 1e-20
            # the exact answer: only the small slabs contribute
            rest = [a.copy() for a in I]
            rest[t][tuple(sel0)] = 0.0
            rest[t][tuple(sel1)] = 0.0
            ref = nets.refeval(net, rest)
            if not np.all(ref != 0):
                continue
            d = {"net": net.to_json(), "ssa": [list(p) for p in ssa], "sliced": [ix], "cancelling_slabs": [t, ix]}
            run.count()
            run.nontrivial(("cancelling-slices", net.eq(), str(ssa), ix, t))
            try:
                with core.watchdog(60), np.errstate(all="ignore"):
                    tree = observe.build_tree(ct, net, ssa)
                    tree.remove_ind_(net.lab[ix])
                    outs = [("tree.contract", tree.contract(I, strip_exponent=True))]
                    slices = [tree.contract_slice(I, i_, strip_exponent=True) for i_ in range(tree.nslices)]
                    outs.append(("gather_slices", tree.gather_slices(slices)))
            except Exception as ex:
                run.violation(f"strip_exponent with exactly cancelling leading slices raised {core.exc_text(ex)} eq={net.eq()} "
                              f"sliced={net.lab[ix]}", d, tags={"cancelling-slices", "raised"})
                continue
            for nm, (m, e) in outs:
                mm = np.asarray(m, dtype=np.float64)
                ok = np.all(np.isfinite(mm)) and math.isfinite(float(e))
                if ok:
                    val = mm * 10.0 ** float(e)
                    ok = val.shape == ref.shape and np.allclose(val, ref, rtol=1e-6, atol=0)
                if not ok:
                    run.violation(f"{nm}(strip_exponent=True): slices 0 and 1 cancel exactly, the remaining slices are 1e-20 times "
                                  f"smaller: mantissa {mm.tolist()} x 10^{e} differs from the exact result {ref.tolist()}: eq={net.eq()} "
                                  f"dims={net.dims} ssa={ssa} sliced={net.lab[ix]} tensor {t}"[:700], d, tags={"cancelling-slices", "value"})
                    break
    # the evaluator itself, tied to the spec on canonical arrays for a sample of the networks
    for net in pool[: (12 if quick else 40)]:
        ref = nets.refeval(net, nets.canon_arrays(net))
        if nets.fits32(ref) and ref.size <= 81:
            val_cases.append({"net": net.tla(), "fix": {}, "value": [int(x) for x in ref.reshape(-1)]})
    vv, vres = tla.judge_cases(f"c19_{run.tier}_v", "ValueJudge", val_cases, chunk=100)
    for r_ in vres:
        run.tlc(r_)
    if any(v[0] != "ok" for v in vv):
        raise tla.MachineryError("harness evaluator disagrees with Network!Einsum")
    run.extra["evaluator_cross_checks_by_tlc"] = len(val_cases)
    verdicts, results = tla.judge_cases(f"c19_{run.tier}_m", "MagnitudeJudge", mag_cases, chunk=400)
    for res in results:
        run.tlc(res)
    run.cov["traces_validated_against_impl"] += len(mag_cases)
    for case, d, v in zip(mag_cases, mag_descs, verdicts):
        if v[0] != "ok":
            run.violation(f"magnitude trace rejected: {v[0]} at pairwise call {v[1]}: {case['steps'][v[1] - 1]} eq={d['net']['eq']} "
                          f"sliced={d['sliced']} scales={d['scales']}", d, tags={v[0], "magnitude"})
        else:
            run.sample({"eq": d["net"]["eq"], "ssa": d["ssa"], "sliced": d["sliced"], "scales": d["scales"],
                        "magnitude_trace": case["steps"][:4], "verdict": "ok"})
    # single-tensor expressions
    for _ in range(20 if quick else 200):
        k = rng.randint(0, 3)
        term = [rng.randint(1, 3) for _ in range(k)]
        labs = sorted(set(term))
        out = rng.sample(labs, rng.randint(0, len(labs)))
        dims = [rng.choice([1, 2, 3]) for _ in range(3)]
        net = nets.Net([term], out, dims)
        s = rng.choice([-100, 100, 0, 57])
        I = pos_arrays(net, rng)
        arrays = [I[0] * 10.0 ** s]
        run.count()
        try:
            mm, ee = ct.array_contract(arrays, net.c_inputs(), net.c_output(), strip_exponent=True)
            val = np.asarray(mm) * 10.0 ** (float(ee) - s)
            ref = nets.refeval(net, I)
            if val.shape != ref.shape or not np.allclose(val, ref, rtol=1e-9):
                run.violation(f"single-tensor array_contract(strip_exponent=True) wrong: term={term} out={out}", {"term": term, "out": out},
                              tags={"value", "single-tensor"})
        except Exception as ex:
            run.violation(f"single-tensor array_contract(strip_exponent=True) raised {core.exc_text(ex)} term={term} out={out}",
                          {"term": term, "out": out}, tags={"raised", "single-tensor"})
    run.cov["rule"] = ("networks x random trees x sliced sets (0-3 indices, inner and output) x per-tensor decimal scales in [-100, 100] "
                       "(extremes favoured) x contraction options; 3 entry points per case; magnitude trace of every pairwise call; "
                       "single-tensor expressions; distinct by (network, tree, sliced set, scales)")
    run.assumptions += ["comparison tolerance rtol 1e-9 in the value domain after removing the known scale",
                        "inputs are positive so no intermediate is exactly zero (the property's non-zero proviso)"]


def replay(run, d):
    raise tla.MachineryError("C19 replay: rerun ./check C19 with the same VERIF_SEED")
