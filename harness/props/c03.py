"""C03 - reported flops / write / max size / peak match definition and execution.

Binding A (spec -> code): every tree (all trees for N <= 4/5, random beyond)
x subsets of indices sliced / projected x traversal orders is built in the real
ContractionTree through the public API; everything it reports about itself is
shipped to TLC, which recomputes each figure from spec/TreeDefs.tla.
"""
import itertools
import random

from .. import core, nets, observe, tla

LEVEL = "model_checking"


QUERIES = ["peak", "stats", "describe", "max_size", "leaf_sizes", "compressed", "none", "none"]


def query(tree, q):
    if q == "peak":
        tree.peak_size()
    elif q == "stats":
        tree.contract_stats()
    elif q == "describe":
        tree.describe("full")
    elif q == "max_size":
        tree.max_size()
    elif q == "compressed":
        # a compressed-cost estimate is a pure query too (it works on its own hypergraph copy of the tree)
        # (compress_late given explicitly: a plain tree has no default for it)
        for fn in (lambda: tree.compressed_contract_stats(chi=2, compress_late=False),
                   lambda: tree.compressed_contract_stats(chi=10**6, compress_late=True),
                   lambda: tree.max_size_compressed(chi=1, compress_late=False),
                   lambda: tree.peak_size_compressed(chi=2, compress_late=True),
                   lambda: tree.total_flops_compressed(chi=3, compress_late=False)):
            try:
                fn()
            except Exception:
                pass        # networks the compressed estimator does not support
    elif q == "leaf_sizes":
        for t in range(tree.N):
            tree.get_size(frozenset([t]))


def apply_plan(tree, net, plan, rng, route=None):
    """Reach the sliced state of `plan` along a route: queries may come first and in between (they fill caches),
    and some indices are restored and removed again in another order.  The final sliced / projected set is `plan`.
    A given `route` (from a replay file) is followed literally."""
    if route is None:
        route = []
        route.append(["query", rng.choice(QUERIES)])
        for ix, proj in plan:
            route.append(["remove", ix, proj])
            if rng.random() < 0.3:
                route.append(["query", rng.choice(QUERIES)])
            if rng.random() < 0.25:
                # a derived tree is made (not in place) and dropped / a copy is continued with: the figures of the tree
                # that is kept are its own
                others = [k for k in range(1, net.K + 1) if k != ix]
                if others and rng.random() < 0.6:
                    route.append(["fork", rng.choice(others), None])
                else:
                    route.append(["continue-on-copy"])
        if plan and rng.random() < 0.4:
            back = rng.sample(plan, rng.randint(1, len(plan)))
            for ix, proj in back:
                route.append(["restore", ix])
            again = list(back)
            rng.shuffle(again)
            for ix, proj in again:
                route.append(["remove", ix, proj])
    for step in route:
        if step[0] == "query":
            query(tree, step[1])
        elif step[0] == "remove":
            tree.remove_ind_(net.lab[step[1]], project=step[2])
        elif step[0] == "fork":
            if net.lab[step[1]] not in tree.sliced_inds:
                side = tree.remove_ind(net.lab[step[1]])
                side.contract_stats()
                del side
        elif step[0] == "continue-on-copy":
            old = tree
            tree = old.copy()
            if old.sliced_inds:
                old.unslice_all_()          # what happens to the tree left behind must not matter
            else:
                old.subtree_reconfigure_(subtree_size=3, maxiter=2)
        else:
            tree.restore_ind_(net.lab[step[1]])
    return tree, route


def cases_for(run, ct, rng, net, tree_nested, n_subsets, with_exec, light=False):
    out = []
    ssa = nets.tree_to_ssa(tree_nested, net.N, rng)
    K = net.K
    all_subsets = [s for r in range(0, K + 1) for s in itertools.combinations(range(1, K + 1), r)]
    if len(all_subsets) > n_subsets:
        subs = [()] + rng.sample(all_subsets[1:], n_subsets - 1)
    else:
        subs = all_subsets
    for sub in subs:
        order = list(sub)
        rng.shuffle(order)
        # each index is either sliced or (prob 1/4) projected to a value
        plan = [(ix, (rng.randrange(net.dim(ix)) if rng.random() < 0.25 else None)) for ix in order]
        desc = {"net": net.to_json(), "ssa": [list(p) for p in ssa], "plan": plan, "exec": with_exec}
        try:
            with core.watchdog(60):
                tree = observe.build_tree(ct, net, ssa)
                tree, route = apply_plan(tree, net, plan, rng)
                desc["route"] = route
                arrays = nets.canon_arrays(net) if with_exec else None
                orders = observe.order_fns(rng)
                ename = rng.choice(list(orders))
                wname = rng.choice(list(orders))
                desc["exec_order"], desc["warm_order"] = ename, wname
                snap = observe.snapshot(net, tree, orders=orders, arrays=arrays,
                                        exec_order=orders[ename], light=light, warm_order=orders[wname])
                if not tree.sliced_inds and not light and rng.random() < 0.5:
                    # the same tree as an object of the COMPRESSED class: its `*_exact` figures are the exact ones, its peak
                    # that of ITS default step order (the order of its path, not depth-first)
                    ctw = ct.ContractionTreeCompressed.from_path(net.c_inputs(), net.c_output(), net.c_sizes(),
                                                                 ssa_path=tree.get_ssa_path(order=orders[ename]))
                    seq = [observe.node1(p) for p, _, _ in ctw.traverse()]
                    snap["peaks"].append({"seq": seq, "peak": int(ctw.peak_size_exact())})
                    ex = {"flops": int(ctw.total_flops_exact()), "write": int(ctw.total_write_exact()), "size": int(ctw.max_size_exact())}
                    if ex != snap["stats"]:
                        run.violation(f"the compressed-class object of the same tree reports exact figures {ex}, the tree itself "
                                      f"{snap['stats']}: eq={net.eq()} ssa={ssa}", desc, tags=["exact-aliases"])
        except Exception as e:
            run.violation(f"tree construction / query raised {core.exc_text(e)}", desc, tags=["raised"])
            continue
        if observe.snapshot_max(snap) >= 2**31:
            continue
        out.append((snap, desc))
    return out


def run(run, replay_desc=None):
    import cotengra as ct
    rng = random.Random(run.seed * 7919 + 3)
    quick = run.tier == "quick"
    n_nets = 24 if quick else 160
    pool = nets.net_pool(rng, n_nets, nmin=2, nmax=5 if quick else 6)
    cases = []
    for net in pool:
        if net.N <= (4 if quick else 5):
            trees = nets.all_trees(net.N)
            if quick and len(trees) > 15:
                trees = rng.sample(trees, 15)
            elif len(trees) > 105:
                trees = rng.sample(trees, 105)
        else:
            trees = [nets.rand_tree(rng, net.N) for _ in range(6 if quick else 25)]
        for tr in trees:
            cases += cases_for(run, ct, rng, net, tr, n_subsets=(8 if quick else 12),
                               with_exec=(rng.random() < (0.5 if quick else 0.6)))
    _judge(run, cases)
    run.cov["rule"] = ("networks from own generator (all index kinds) x all binary trees for small N "
                       "(random beyond) x random subsets of indices sliced or projected in random order "
                       "x 7 traversal orders; a case is non-trivial/distinct by (network, tree, sliced set)")
    run.cov["exhaustive"] = False
    run.assumptions += ["TLC evaluates the definitions in spec/TreeDefs.tla correctly",
                        "sizes above 2^31 are skipped (TLC integers are 32 bit)"]


def _judge(run, cases):
    verdicts, results = tla.judge_cases(f"c03_{run.tier}", "SnapshotJudge", [c[0] for c in cases])
    for res in results:
        run.tlc(res)
    run.cov["traces_validated_against_impl"] += len(cases)
    for (snap, desc), v in zip(cases, verdicts):
        run.count()
        run.nontrivial((str(desc["net"]["eq"]), str(desc["net"]["dims"]), str(sorted(map(sorted, (c[0] for c in snap["ch"])))),
                        str(desc["plan"])))
        if v[0] != "ok":
            run.violation(f"reported figure disagrees with the definition: clause '{v[0]}' "
                          f"eq={desc['net']['eq']} dims={desc['net']['dims']} ssa={desc['ssa']} plan={desc['plan']} route={desc.get('route')}",
                          desc, tags=[v[0]])
        else:
            run.sample({"eq": desc["net"]["eq"], "dims": desc["net"]["dims"], "ssa": desc["ssa"],
                        "sliced_or_projected": desc["plan"], "verdict": "ok",
                        "stats": snap["stats"], "npeaks": len(snap["peaks"]), "exec_steps": len(snap["exec"])})


def replay(run, desc):
    import cotengra as ct
    rng = random.Random(0)
    net = nets.Net.from_json(desc["net"])
    tree = observe.build_tree(ct, net, desc["ssa"])
    tree, _ = apply_plan(tree, net, [tuple(p) for p in desc["plan"]], rng, route=desc.get("route"))
    orders = observe.order_fns(rng)
    snap = observe.snapshot(net, tree, orders=orders, arrays=nets.canon_arrays(net) if desc.get("exec") else None,
                            exec_order=orders.get(desc.get("exec_order"), None),
                            warm_order=orders.get(desc.get("warm_order"), None) if desc.get("warm_order") in orders else "__none__")
    _judge(run, [(snap, desc)])
