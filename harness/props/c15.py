"""C15 - a crash while writing the on-disk cache never poisons later runs.

Design level: MC_DiskCrash_* (writer micro-steps with a crash between any two
and inside a write; the in-place protocol violates NeverPoisoned with a strict
reader - kept as a negative instance - the temp+rename protocol satisfies it).
Binding (i): the real writer's system calls on the cache directory (strace)
must be a behaviour of the protocol for which NeverPoisoned was verified.
Binding (ii): every crash schedule TLC enumerates for either protocol is forced
on the real writer in a child process (wrappers that _exit at the scheduled
micro-step / after the scheduled fraction of the payload); then two successive
fresh processes query the same contraction and one stored before the crash;
outcomes are judged by TLC (DiskCrashJudge).
"""
import json
import os
import pickle
import random
import re
import shutil
import subprocess
import sys
import tempfile
from concurrent.futures import ThreadPoolExecutor

from .. import core, tla, mc

LEVEL = "model_checking"
CHILD = [sys.executable, "-m", "harness.crash_child"]


def child(*args, timeout=120):
    env = dict(os.environ, PYTHONHASHSEED="0")
    p = subprocess.run(CHILD + [str(a) for a in args], capture_output=True, text=True, timeout=timeout,
                       cwd=core.VERIF, env=env)
    lines = [l for l in p.stdout.splitlines() if l.startswith("{")]
    return (json.loads(lines[-1]) if lines else {"nooutput": True, "stderr": p.stderr[-400:]}), p.returncode


def plans_from_tlc(run):
    """crash schedules = histories of spec/DiskCrash.tla that contain a crash, for both protocols"""
    plans = {}
    for proto in ("temprename", "inplace"):
        for old in ("TRUE", "FALSE"):
            res = mc.run_mc(f"MC_DiskCrash_gen_{proto}_{old}", workers=1, module="MC_DiskCrash")
            run.tlc(res)
            for v in res.verdicts:
                hist = v[0]
                names = [e[0] for e in hist]
                if "crash" not in names:
                    continue
                k = names.index("crash")
                pre = hist[:k]
                written = sum(e[1] for e in pre if e[0] == "write")
                last = pre[-1][0] if pre else "start"
                if last == "start":
                    plan = ["before", "mkdir"]
                elif last == "mkdir":
                    plan = ["before", "open"]
                elif last in ("open", "write"):
                    plan = ["bytes", written, 3]
                elif last == "close":
                    plan = ["before", "rename"]
                else:
                    continue
                plans[json.dumps(plan)] = plan
    plans[json.dumps(["after", "rename"])] = ["after", "rename"]
    # kills right after an interior 0x2e byte of the payload (the same byte ends every pickle: a truncated file can look finished)
    for j in (1, 2, 3):
        plans[json.dumps(["afterbyte", 46, j])] = ["afterbyte", 46, j]
    # the writer dies by an exception raised while storing (a failing write, an interrupt) after part of the payload
    for k_, exc_ in ((0, "OSError"), (1, "OSError"), (2, "KeyboardInterrupt"), (1, "KeyboardInterrupt")):
        plans[json.dumps(["raise", k_, 3, exc_])] = ["raise", k_, 3, exc_]
    plans[json.dumps(["before", "close"])] = ["before", "close"]
    return list(plans.values())


def file_state(directory, which_hash_parts):
    p = os.path.join(directory, *which_hash_parts)
    if not os.path.exists(p):
        return "absent"
    try:
        with open(p, "rb") as f:
            con = pickle.load(f)
        return "old" if con.get("verif_writer") == "old" else "new"
    except Exception:
        return "partial"


def hash_parts(split):
    sys.path.insert(0, core.REPO)
    from cotengra import reusable
    from .. import crash_child
    out = {}
    for k, (i, o, s) in crash_child.CONS.items():
        h = reusable.hash_contraction(i, o, s, "a")
        out[k] = (h[:2], h[2:]) if split else (h,)
    return out


def crash_case(plan, split, scenario):
    """scenario: 'new' (no old entry), 'overwrite' (old entry, overwrite=True), 'improved' (old entry, overwrite='improved')"""
    d = tempfile.mkdtemp(prefix="c15_", dir=tla.workdir("c15_dirs"))
    try:
        hp = hash_parts(split)
        info = {"plan": plan, "split": split, "scenario": scenario}
        # an entry stored before the crash, for another contraction
        r, rc = child("store", d, split, "False", "old", json.dumps(["none"]), "B")
        if rc != 0:
            return None, dict(info, error=f"set-up store failed: {r}")
        hasold = scenario != "new"
        if hasold:
            child("store", d, split, "False", "old", json.dumps(["none"]), "A")
        ow = {"new": "False", "overwrite": "True", "improved": "improved"}[scenario]
        if plan[0] == "two-writers":
            r, rc = child("store2", d, split, "A")
        else:
            r, rc = child("store", d, split, ow, "new", json.dumps(plan), "A")
        info["writer"] = r
        info["crashed"] = bool(r.get("crashed"))
        final = file_state(d, hp["A"])
        info["files"] = sorted(os.path.relpath(os.path.join(root, f), d) for root, _, fs in os.walk(d) for f in fs)
        q1, _ = child("query", d, split, "A", "False")
        q2, _ = child("query", d, split, "A", "False")
        qo, _ = child("query", d, split, "B", "True")
        # a later run that opens the directory with the library's default layout detection (directory_split='auto')
        qa, _ = child("query", d, "auto", "B", "True")
        info["first"], info["second"], info["other"], info["other_auto"] = q1, q2, qo, qa

        def cls(q):
            if q.get("outcome") in ("old", "new", "searched") and q.get("valid", False):
                return q["outcome"]
            if q.get("outcome") == "reader":
                return "searched"
            return "error"
        case = {"kind": "crash", "plan": plan, "hasold": hasold, "final": final, "first": cls(q1), "second": cls(q2),
                "other": "hit" if qo.get("outcome") == "old" and qo.get("valid") else ("searched" if qo.get("outcome") == "searched" else "error"),
                "other_auto": "hit" if qa.get("outcome") == "old" and qa.get("valid") else ("searched" if qa.get("outcome") == "searched" else "error")}
        return case, info
    finally:
        shutil.rmtree(d, ignore_errors=True)


def syscall_case(split):
    """strace the real writer and classify its system calls on the cache directory"""
    d = tempfile.mkdtemp(prefix="c15s_", dir=tla.workdir("c15_dirs"))
    log = os.path.join(d, "..", os.path.basename(d) + ".strace")
    try:
        hp = hash_parts(split)
        final = os.path.join(d, *hp["A"])
        env = dict(os.environ, PYTHONHASHSEED="0")
        cmd = ["strace", "-f", "-y", "-e", "trace=openat,open,creat,write,close,rename,renameat,renameat2,mkdir,mkdirat,unlink,unlinkat",
               "-o", log] + CHILD + ["store", d, str(split), "False", "new", json.dumps(["none"]), "A"]
        p = subprocess.run(cmd, capture_output=True, text=True, timeout=180, cwd=core.VERIF, env=env)
        events = []
        fds = {}
        droot = os.path.realpath(d)
        for line in open(log, errors="replace"):
            m = re.match(r"\d+\s+(\w+)\((.*)\)\s+=\s+(-?\d+)", line)
            if not m:
                continue
            call, args, ret = m.group(1), m.group(2), int(m.group(3))
            if droot not in args:
                continue
            def nm(path):
                path = os.path.realpath(path)
                if path == os.path.realpath(final):
                    return "final"
                if os.path.dirname(path) in (droot, os.path.dirname(os.path.realpath(final))) and path != droot \
                        and not os.path.isdir(path):
                    return "tmp"
                return "dir"
            if call in ("mkdir", "mkdirat"):
                events.append({"op": "mkdir", "name": "dir", "trunc": False, "to": ""})
            elif call in ("openat", "open", "creat") and ret >= 0:
                pm = re.search(r'"([^"]+)"', args)
                if pm and ("O_WRONLY" in args or "O_RDWR" in args or call == "creat"):
                    events.append({"op": "open", "name": nm(pm.group(1)), "trunc": "O_TRUNC" in args, "to": ""})
            elif call == "write":
                pm = re.match(r"\d+<([^>]+)>", args)
                if pm and droot in pm.group(1):
                    events.append({"op": "write", "name": nm(pm.group(1)), "trunc": False, "to": ""})
            elif call == "close":
                pm = re.match(r"\d+<([^>]+)>", args)
                if pm and droot in pm.group(1) and not os.path.isdir(pm.group(1)):
                    n_ = nm(pm.group(1))
                    if events and any(e["op"] == "open" and e["name"] == n_ for e in events):
                        events.append({"op": "close", "name": n_, "trunc": False, "to": ""})
            elif call in ("rename", "renameat", "renameat2") and ret == 0:
                ps = re.findall(r'"([^"]+)"', args)
                if len(ps) >= 2:
                    events.append({"op": "rename", "name": nm(ps[0]) if os.path.realpath(ps[0]) != os.path.realpath(final) else "final",
                                   "trunc": False, "to": "final" if os.path.realpath(ps[1]) == os.path.realpath(final) else "tmp"})
        # reads of the cache by the same process (open for reading) are not recorded (O_RDONLY filtered above)
        return {"kind": "syscalls", "events": events}, {"split": split, "events": events, "rc": p.returncode,
                                                         "stderr": p.stderr[-300:]}
    finally:
        shutil.rmtree(d, ignore_errors=True)
        if os.path.exists(log):
            os.remove(log)


def run(run):
    rng = random.Random(run.seed * 8009 + 15)
    quick = run.tier == "quick"
    run.extra["mc_instances"] = {}
    for nm in ("MC_DiskCrash_temprename_new", "MC_DiskCrash_temprename_old", "MC_DiskCrash_inplace_tolerant"):
        # the in-place protocol has no rename step by definition
        res = mc.run_mc(nm, workers=1, module="MC_DiskCrash", allow_unused=("Rename",) if "inplace" in nm else ())
        run.tlc(res)
        run.extra["mc_instances"][nm] = {"states": res.distinct, "exhaustive": True}
    # negative instance: the in-place protocol with a strict reader MUST violate NeverPoisoned
    try:
        mc.run_mc("MC_DiskCrash_inplace_new", workers=1, module="MC_DiskCrash")
        raise tla.MachineryError("negative instance MC_DiskCrash_inplace_new did not violate NeverPoisoned (vacuity)")
    except tla.MachineryError as e:
        if "NeverPoisoned" not in str(e):
            raise
        run.extra["mc_instances"]["MC_DiskCrash_inplace_new (negative)"] = {"violates": "NeverPoisoned", "as_expected": True}
    # two writers at once (DiskCrash2.tla): a temporary name per writer keeps the final name complete in every interleaving and
    # crash schedule; one shared name must be refuted
    for nm in ("MC_DiskCrash2_perwriter_TRUE", "MC_DiskCrash2_perwriter_FALSE"):
        res = mc.run_mc(nm, workers=2, module="MC_DiskCrash2")
        run.tlc(res)
        run.extra["mc_instances"][nm] = {"states": res.distinct, "exhaustive": True}
    for nm in ("MC_DiskCrash2_shared_TRUE", "MC_DiskCrash2_shared_FALSE"):
        try:
            mc.run_mc(nm, workers=1, module="MC_DiskCrash2", coverage=False)
            raise tla.MachineryError(f"negative instance {nm} was not refuted (vacuity)")
        except tla.MachineryError as e:
            if "FinalAlwaysComplete" not in str(e) and "NeverPoisoned" not in str(e):
                raise
            run.extra["mc_instances"][nm + " (negative)"] = {"violates": "FinalAlwaysComplete", "as_expected": True}
    plans = plans_from_tlc(run)
    run.extra["crash_plans_from_tlc"] = plans
    jobs = []
    for plan in plans:
        for split in (True, False):
            for scenario in ("new", "overwrite", "improved"):
                jobs.append((plan, split, scenario))
    if not quick:
        # every byte offset of the payload (offsets beyond its length do not crash)
        for k in range(0, 400):
            jobs.append((["offset", k], k % 2 == 0, "new" if k % 3 else "overwrite"))
    if quick:
        keep = [j for j in jobs if j[2] == "overwrite" and j[1]] + rng.sample([j for j in jobs if not (j[2] == "overwrite" and j[1])], 10) \
            + [j for j in jobs if j[0][0] == "raise" and j[2] == "new" and not j[1]]
        jobs = keep
    # two workers forked from one process share the optimizer object they inherited; one is killed right after opening its
    # temporary file while the other is about to move its complete entry into place (conformance only: DiskCrash.tla has one writer)
    jobs += [(["two-writers"], True, "new"), (["two-writers"], False, "new")]
    with ThreadPoolExecutor(10) as ex:
        outs = list(ex.map(lambda j: crash_case(*j), jobs))
        sys_outs = list(ex.map(syscall_case, [True, False]))
    cases, infos = [], []
    for (case, info), job in zip(outs, jobs):
        run.count()
        run.nontrivial(json.dumps(job))
        if case is None:
            raise tla.MachineryError(f"crash harness failed: {info}")
        cases.append(case)
        infos.append(info)
    for case, info in sys_outs:
        run.count()
        run.nontrivial("syscalls-split-%s" % info["split"])
        cases.append(case)
        infos.append(info)
    verdicts, results = tla.judge_cases(f"c15_{run.tier}", "DiskCrashJudge", cases, chunk=200)
    for res in results:
        run.tlc(res)
    run.cov["traces_validated_against_impl"] += len(cases)
    ncrashed = 0
    for case, info, v in zip(cases, infos, verdicts):
        if case["kind"] == "crash":
            ncrashed += bool(info.get("crashed"))
        if v[0] != "ok":
            if case["kind"] == "crash":
                run.violation(f"crash {info['plan']} (split={info['split']}, {info['scenario']}): {v[0]}: file under final name is "
                              f"'{case['final']}', files={info['files']}, first fresh process: {info['first']}, second: {info['second']}, "
                              f"entry stored before the crash: {info['other']}", info,
                              tags={v[0], "scenario:" + info["scenario"], "plan:" + str(info["plan"][0])})
            else:
                run.violation(f"the writer's system calls are not a behaviour of the atomic (temp + rename) protocol: {v[0]}: "
                              f"{[(e['op'], e['name'], e['to']) for e in info['events']]}", info, tags={v[0], "syscalls"})
        else:
            run.sample({k: info.get(k) for k in ("plan", "split", "scenario", "crashed", "files", "first", "second", "other", "events")
                        if k in info} | {"verdict": "ok"}, cap=8)
    run.extra["children_that_really_crashed"] = ncrashed
    if ncrashed == 0:
        raise tla.MachineryError("no child crashed: the crash injection is not reaching the writer (vacuity)")
    run.cov["exhaustive"] = not quick
    run.cov["rule"] = ("crash plans = every distinct crash point in the histories TLC enumerates for both writer protocols (before mkdir / "
                       "open, after 0, 1/3, 2/3, all payload bytes, before close, before / after rename) x directory_split x "
                       "{new entry, overwrite=True, overwrite='improved'}; each followed by two fresh reader processes and a "
                       "cache_only read of an older entry; plus the writer's strace'd system calls")
    run.assumptions += ["crashes are injected at Python level in the child (os._exit in wrappers of open/write/mkdir/replace); bytes reach "
                        "the file unbuffered before the exit", "the kernel's rename is atomic"]


def replay(run, desc):
    case, info = crash_case(desc["plan"], desc["split"], desc["scenario"])
    run.count()
    verdicts, results = tla.judge_cases("c15_replay", "DiskCrashJudge", [case])
    if verdicts[0][0] != "ok":
        run.violation(f"crash {desc['plan']}: {verdicts[0][0]}: {info}", info, tags={verdicts[0][0]})
