"""C12 - the einsum front end accepts what numpy.einsum accepts and means the same.

Spec: spec/Frontend.tla (ellipsis expansion, right alignment, implicit output
sorted by label, array_contract / ncon output conventions).  TLC enumerates
call forms (MC_Frontend) together with their normal form; each is realised as
an equation string AND as the interleaved form, run through numpy.einsum (the
oracle the property names), through the spec's normal form with the harness
evaluator (if these two disagree the run stops with exit 2: the spec would be
wrong) and through cotengra.einsum / einsum_tree / einsum_expression /
array_contract / ncon.  What cotengra's parser produces is judged by TLC
(FrontendJudge) against the normal form up to renaming of ellipsis symbols.
"""
import random
import string

import numpy as np

from .. import core, nets, tla, mc

LEVEL = "model_checking"


def forms_from_tlc(run, quick):
    res = mc.run_mc("MC_Frontend_quick" if quick else "MC_Frontend", workers=1, module="MC_Frontend", timeout=3000)
    run.tlc(res)
    seen, out = set(), []
    for v in res.verdicts:
        key = repr(v[0])
        if key not in seen:
            seen.add(key)
            out.append((v[0], v[1], v[2], v[3]))
    return out


def rand_form(rng, nterms=None, nlabels=5, maxell=2):
    nterms = nterms or rng.randint(1, 4)
    terms, shapes = [], []
    for _ in range(nterms):
        k = rng.randint(0, 3)
        named = [rng.randint(1, nlabels) for _ in range(k)]
        ell = rng.random() < 0.5
        cut = rng.randint(0, k) if ell else k
        terms.append({"pre": named[:cut], "ell": ell, "post": named[cut:] if ell else []})
        if not ell:
            terms[-1]["pre"] = named
        shapes.append([2] * (k + (rng.randint(0, maxell) if ell else 0)))
    named_all = sorted({x for t in terms for x in t["pre"] + t["post"]})
    hasell = any(t["ell"] for t in terms)
    if rng.random() < 0.5:
        out = {"given": False, "pre": [], "ell": False, "post": []}
    else:
        o = rng.sample(named_all, rng.randint(0, len(named_all)))
        out = {"given": True, "pre": [], "ell": hasell, "post": o}
    return {"terms": terms, "out": out, "shapes": shapes}


def norm_py(f):
    """python mirror of Frontend!Inputs/Output, used only for harness-generated forms; TLC
    judges the implementation's parse against the spec itself"""
    nell = [len(s) - len(t["pre"]) - len(t["post"]) if t["ell"] else 0 for t, s in zip(f["terms"], f["shapes"])]
    E = max(nell + [0])
    ell = list(range(-E, 0))
    inputs = [t["pre"] + (ell[E - n:] if n else []) + t["post"] for t, n in zip(f["terms"], nell)]
    alln = [x for t in f["terms"] for x in t["pre"] + t["post"]]
    once = sorted(x for x in set(alln) if alln.count(x) == 1)
    if f["out"]["given"]:
        output = f["out"]["pre"] + (ell if f["out"]["ell"] else []) + f["out"]["post"]
    else:
        output = ell + once
    seen = []
    for x in alln:
        if alln.count(x) == 1 and x not in seen:
            seen.append(x)
    return inputs, output, seen


def assign_extents(rng, inputs, broadcast):
    ext = {}
    for term in inputs:
        for x in term:
            ext.setdefault(x, rng.choice([1, 2, 3]))
    shapes = []
    for term in inputs:
        shp = []
        for x in term:
            d = ext[x]
            if broadcast and x < 0 and d > 1 and rng.random() < 0.3:
                d = 1          # numpy broadcasts an ellipsis axis of extent 1
            shp.append(d)
        shapes.append(tuple(shp))
    return shapes, ext


def realise(rng, f, inputs):
    """labels -> letters (monotone, so that sorting by letter = sorting by label) and ints"""
    labs = sorted({x for t in f["terms"] for x in t["pre"] + t["post"]} | set(f["out"]["pre"] + f["out"]["post"]))
    pool = sorted(rng.sample(string.ascii_uppercase + string.ascii_lowercase, len(labs))) if rng.random() < 0.5 \
        else list(string.ascii_lowercase[: len(labs)])
    letter = dict(zip(labs, pool))
    ints = dict(zip(labs, sorted(rng.sample(range(0, 26), len(labs)))))

    def term_s(t):
        return "".join(letter[x] for x in t["pre"]) + ("..." if t["ell"] else "") + "".join(letter[x] for x in t["post"])
    eq = ",".join(term_s(t) for t in f["terms"])
    if f["out"]["given"]:
        eq += "->" + term_s(f["out"])

    def term_l(t):
        return [ints[x] for x in t["pre"]] + ([Ellipsis] if t["ell"] else []) + [ints[x] for x in t["post"]]
    sub = [term_l(t) for t in f["terms"]]
    subout = term_l(f["out"]) if f["out"]["given"] else None
    return eq, sub, subout, letter, ints


def squeeze_for_ref(inputs, shapes, arrays, ext):
    """normal form for the evaluator: a tensor whose ellipsis axis has extent 1 where the label has
    extent n > 1 does not depend on that label"""
    new_in, new_arr = [], []
    for term, shp, a in zip(inputs, shapes, arrays):
        keep = [k for k, (x, d) in enumerate(zip(term, shp)) if not (x < 0 and d == 1 and ext[x] > 1)]
        new_in.append([term[k] for k in keep])
        new_arr.append(a.reshape([shp[k] for k in keep]))
    return new_in, new_arr


def check_form(run, ct, rng, f, spec_norm, quick):
    """returns list of judge cases"""
    from cotengra.utils import parse_einsum_input
    cases = []
    inputs, output, appear = spec_norm
    broadcast = rng.random() < 0.25
    shapes, ext0 = assign_extents(rng, inputs, broadcast)
    ext = {}
    for term, shp in zip(inputs, shapes):
        for x, d in zip(term, shp):
            ext[x] = max(ext.get(x, 1), d)
    arrays = [np.array([rng.randint(-3, 3) for _ in range(int(np.prod(s)))], dtype=np.float64).reshape(s) for s in shapes]
    eq, sub, subout, letter, ints = realise(rng, f, inputs)
    d = {"form": f, "eq": eq, "sublists": [[("..." if x is Ellipsis else x) for x in s] for s in sub],
         "subout": None if subout is None else [("..." if x is Ellipsis else x) for x in subout], "shapes": [list(s) for s in shapes]}
    tags = set()
    if broadcast and any(dd == 1 and ext[x] > 1 for term, shp in zip(inputs, shapes) for x, dd in zip(term, shp) if x < 0):
        tags.add("ellipsis-axis-broadcast-1-vs-n")
    if not f["out"]["given"]:
        tags.add("implicit-output")
    # --- oracle: numpy --------------------------------------------------------------------------
    try:
        want = np.einsum(eq, *arrays)
        inter_args = [x for pair in zip(arrays, sub) for x in pair] + ([subout] if subout is not None else [])
        want_i = np.einsum(*inter_args)
    except Exception:
        return cases          # numpy rejects the form: outside the property
    # --- spec normal form with the harness evaluator must agree with numpy ----------------------
    new_in, new_arr = squeeze_for_ref(inputs, shapes, arrays, ext)
    labs = sorted({x for t in new_in for x in t} | set(output))
    ren = {x: i + 1 for i, x in enumerate(labs)}
    net = nets.Net([[ren[x] for x in t] for t in new_in], [ren[x] for x in output], [ext[x] for x in labs])
    ref = nets.refeval(net, new_arr)
    if ref.shape != want.shape or not np.array_equal(ref, want) or not np.array_equal(want_i, want):
        raise tla.MachineryError(f"spec normal form disagrees with numpy.einsum on {d}: the specification is wrong, not the code")
    # --- cotengra -------------------------------------------------------------------------------
    run.count()
    run.nontrivial((eq, str(d["shapes"])))

    def cmp(name, fn, extra_tags=()):
        try:
            with core.watchdog(60):
                got = np.asarray(fn())
        except Exception as e:
            run.violation(f"{name} raised {core.exc_text(e)} where numpy.einsum succeeds: eq='{eq}' sublists={d['sublists']} out={d['subout']} "
                          f"shapes={d['shapes']}", dict(d, api=name), tags=tags | set(extra_tags) | {"raised", type(e).__name__})
            return
        if got.shape != want.shape or not np.array_equal(got, want):
            run.violation(f"{name} differs from numpy.einsum: eq='{eq}' sublists={d['sublists']} out={d['subout']} shapes={d['shapes']} "
                          f"got shape {got.shape} want {want.shape}", dict(d, api=name), tags=tags | set(extra_tags) | {"value"})

    opt = rng.choice(["auto", "greedy", "optimal", "auto-hq"])
    cmp("einsum(eq)", lambda: ct.einsum(eq, *arrays, optimize=opt), {"equation-form"})
    cmp("einsum(interleaved)", lambda: ct.einsum(*inter_args, optimize=opt), {"interleaved-form"})
    if rng.random() < 0.5:
        cmp("einsum_expression(eq)", lambda: ct.einsum_expression(eq, *shapes, optimize=opt)(*arrays), {"equation-form"})
        if len(arrays) >= 2 and not any(0 in a.shape for a in arrays):
            # one operand folded into the expression as a constant; built twice with DIFFERENT constant values
            ci = rng.randrange(len(arrays))

            def with_const(scale):
                ops = [(arrays[k] * scale if k == ci else shapes[k]) for k in range(len(arrays))]
                ex = ct.einsum_expression(eq, *ops, constants=[ci], optimize=opt)
                return ex(*[a for k, a in enumerate(arrays) if k != ci]) / scale
            cmp("einsum_expression(eq, constants=[i])", lambda: with_const(1.0), {"equation-form", "constants"})
            cmp("einsum_expression(eq, constants=[i]) built again with other constant values", lambda: with_const(2.0),
                {"equation-form", "constants"})
        if len(arrays) >= 2:
            cmp("einsum_tree(eq).contract", lambda: ct.einsum_tree(eq, *shapes, optimize=opt).contract(arrays), {"equation-form"})
    # --- what the parser produced, for TLC ---------------------------------------------------------
    inv_letter = {v: k for k, v in letter.items()}
    for api, args in (("eq", (eq, *shapes)), ("interleaved", tuple(x for pair in zip(shapes, sub) for x in pair) + ((subout,) if subout is not None else ()))):
        try:
            pin, pout, _ = parse_einsum_input(args, shapes=True, tuples=True)
        except Exception:
            continue            # already reported through the numeric comparison
        if api == "eq":
            back = inv_letter
        else:
            # the interleaved converter renames labels to symbols in order of appearance: recover through positions
            from cotengra.utils import get_symbol_map
            sm = get_symbol_map(sub)
            back = {v: {vv: kk for kk, vv in ints.items()}[k] for k, v in sm.items() if k is not Ellipsis}
        fresh = {}

        def lab(sym):
            if sym in back:
                return back[sym]
            return fresh.setdefault(sym, 2000 + len(fresh))
        cases.append(({"f": f, "api": "einsum", "inputs": [[lab(s) for s in t] for t in pin], "output": [lab(s) for s in pout]},
                      dict(d, api="parse_einsum_input(" + api + ")"), tags | {api + "-form"}))
    # --- array_contract with arbitrary hashable labels (no ellipsis) ----------------------------------
    if not any(t["ell"] for t in f["terms"]) and not broadcast:
        kinds = [lambda x: ("ix", x), lambda x: x * 7 + 3, lambda x: f"index_{x}", lambda x: frozenset([x, -x])]
        mk = rng.choice(kinds)
        ain = [tuple(mk(x) for x in t) for t in inputs]
        if f["out"]["given"]:
            aout = tuple(mk(x) for x in output)
            wanted = want
        else:
            aout = None
            # documented: implicit output in order of appearance
            net2 = nets.Net(net.inputs, [ren[x] for x in appear], net.dims)
            wanted = nets.refeval(net2, new_arr)
        try:
            got = np.asarray(ct.array_contract(arrays, ain, aout, optimize=opt))
            if got.shape != wanted.shape or not np.array_equal(got, wanted):
                run.violation(f"array_contract with labels {ain} output={aout} differs from the equivalent einsum", dict(d, api="array_contract"),
                              tags=tags | {"value", "array_contract"})
        except Exception as e:
            run.violation(f"array_contract with labels {ain} output={aout} raised {core.exc_text(e)}", dict(d, api="array_contract"),
                          tags=tags | {"raised", "array_contract"})
    return cases


def ncon_cases(run, ct, rng, count):
    for _ in range(count):
        n = rng.randint(1, 4)
        nb = rng.randint(0, 4)
        no = rng.randint(0, 3)
        inds = [[] for _ in range(n)]
        # "negative integers specify outputs", whatever their multiplicity; non-negative ones are summed, whatever theirs
        for b in range(1, nb + 1):
            r_ = rng.random()
            if r_ < 0.1:
                where = [rng.randrange(n)]                                   # a label that occurs once: summed
            elif r_ < 0.2 and n >= 3:
                where = rng.sample(range(n), 3)                              # a hyper bond
            else:
                where = rng.sample(range(n), 2) if n > 1 else [0, 0]
            for t in where:
                inds[t].append(b)
        for o in range(1, no + 1):
            where = rng.sample(range(n), 2) if (n > 1 and rng.random() < 0.2) else [rng.randrange(n)]   # an open leg on two tensors
            for t in where:
                inds[t].append(-o)
        for t in inds:
            rng.shuffle(t)
        ext = {}
        shapes = [tuple(ext.setdefault(x, rng.choice([1, 2, 3])) for x in t) for t in inds]
        arrays = [np.array([rng.randint(-3, 3) for _ in range(int(np.prod(s)))], dtype=np.float64).reshape(s) for s in shapes]
        labs = sorted(ext)
        ren = {x: i + 1 for i, x in enumerate(labs)}
        net = nets.Net([[ren[x] for x in t] for t in inds], [ren[-o] for o in range(1, no + 1)], [ext[x] for x in labs])
        want = nets.refeval(net, arrays)
        run.count()
        run.nontrivial(("ncon", str(inds), str(shapes)))
        # the same integer labels in the containers callers hand over: lists of ints, tuples, numpy integer arrays, numpy scalars
        forms = [("lists of ints", inds)]
        r_ = rng.random()
        if r_ < 0.3:
            forms.append(("tuples", tuple(tuple(t) for t in inds)))
        elif r_ < 0.6:
            forms.append(("numpy integer arrays", [np.array(t, dtype=np.int64) for t in inds]))
        elif r_ < 0.8:
            forms.append(("lists of numpy integers", [[np.int32(x) for x in t] for t in inds]))
        for fname, finds in forms:
            try:
                got = np.asarray(ct.ncon(arrays, finds))
                if got.shape != want.shape or not np.array_equal(got, want):
                    run.violation(f"ncon({inds}) [labels as {fname}] differs from the equivalent einsum (outputs ordered -1, -2, ...): shape "
                                  f"{got.shape} vs {want.shape}", {"ncon": inds, "shapes": shapes, "labels_as": fname},
                                  tags={"value", "ncon", "labels:" + fname.replace(" ", "-")})
            except Exception as e:
                run.violation(f"ncon({inds}) [labels as {fname}] shapes={shapes} raised {core.exc_text(e)}",
                              {"ncon": inds, "shapes": shapes, "labels_as": fname}, tags={"raised", "ncon", "labels:" + fname.replace(" ", "-")})


def run(run):
    import cotengra as ct
    rng = random.Random(run.seed * 13001 + 12)
    quick = run.tier == "quick"
    forms = forms_from_tlc(run, quick)
    run.extra["forms_enumerated_by_tlc"] = len(forms)
    use = rng.sample(forms, 700) if quick else rng.sample(forms, min(len(forms), 15000))
    jobs = []
    for f, fin, fout, fapp in use:
        f = {"terms": [dict(t) for t in f["terms"]], "out": dict(f["out"]), "shapes": [list(s) for s in f["shapes"]]}
        jobs.append((f, (fin, fout, fapp)))
    for _ in range(500 if quick else 20000):
        f = rand_form(rng)
        jobs.append((f, norm_py(f)))
    cases = []
    for f, norm in jobs:
        cases += check_form(run, ct, rng, f, ([list(t) for t in norm[0]], list(norm[1]), list(norm[2])), quick)
    ncon_cases(run, ct, rng, 80 if quick else 2000)
    verdicts, results = tla.judge_cases(f"c12_{run.tier}", "FrontendJudge", [c[0] for c in cases], chunk=800)
    for res in results:
        run.tlc(res)
    run.cov["traces_validated_against_impl"] += len(cases)
    for (case, d, tags), v in zip(cases, verdicts):
        if v[0] != "ok":
            run.violation(f"{d['api']}: {v[0]}: eq='{d['eq']}' sublists={d['sublists']} out={d['subout']} shapes={d['shapes']} parsed "
                          f"inputs={case['inputs']} output={case['output']}", d, tags=tags | {v[0]})
        else:
            run.sample({"eq": d["eq"], "sublists": d["sublists"], "out": d["subout"], "shapes": d["shapes"], "api": d["api"],
                        "parsed_inputs": case["inputs"], "parsed_output": case["output"], "verdict": "ok"})
    run.cov["rule"] = ("call forms enumerated by TLC (1-2 operands, <=2 named axes over 2 labels, ellipsis absent/leading/trailing/middle, "
                       "0-1 ellipsis axes, explicit/implicit output) + random forms with 1-4 operands, 5 labels, <=2 ellipsis axes; each as "
                       "equation string and interleaved form, extents from {1,2,3} incl. 1-vs-n ellipsis broadcasting; ncon index lists; "
                       "distinct by (equation, shapes)")
    run.assumptions += ["numpy.einsum is the oracle (as the property states); forms numpy rejects are skipped"]


def replay(run, d):
    raise tla.MachineryError("C12 replay: rerun ./check C12 with the same VERIF_SEED")
