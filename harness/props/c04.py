"""C04 - incrementally tracked costs equal a from-scratch rebuild after any history.

Same histories as C02; here every figure the tree reports after every step
(per-node legs / involved / size / flops, totals, multiplicity, sliced inputs,
preprocessing set, peak) is recomputed by TLC from spec/TreeDefs.tla on the
recorded structure, and the statement's own oracle (a tree rebuilt from
get_path() + the same sliced / projected indices reports the same) is required.
"""
from . import _hist
from .. import mc, tla
from . import _repo, _build

LEVEL = "model_checking"


def design_level(run):
    """TreeCache.tla: the implementation-shaped model of the in-place updates (remove_ind loop over the
    insertion order, restore_ind, re-creation with computed values, annealing rotations with supplied
    legs / cost / size).  The model of the code AFTER the F4 repair keeps CacheCoherent / TotalsCoherent;
    the model of the code before it is refuted (negative instance)."""
    quick = run.tier == "quick"
    run.extra["mc_instances"] = {}
    for nm in (["MC_TreeCache_repaired_quick"] if quick else ["MC_TreeCache_repaired", "MC_Tree_A"]) + (["MC_Tree_Bq"] if quick else ["MC_Tree_B"]):
        # (MC_Tree_A: 3.0 M states, 18 min on the idle machine with coverage on - the time limit leaves room for a loaded one)
        res = mc.run_mc(nm, workers=12, module="MC_TreeCache" if "TreeCache" in nm else "MC_Tree", timeout=7200)
        run.tlc(res)
        run.extra["mc_instances"][nm] = {"states": res.distinct, "exhaustive": True}
    try:
        mc.run_mc("MC_TreeCache_unrepaired", workers=2, module="MC_TreeCache")
        raise tla.MachineryError("negative instance MC_TreeCache_unrepaired was not refuted (vacuity)")
    except tla.MachineryError as e:
        if "CacheCoherent" not in str(e) and "TotalsCoherent" not in str(e):
            raise
        run.extra["mc_instances"]["MC_TreeCache_unrepaired (negative)"] = {"violates": "CacheCoherent", "as_expected": True}


def big_figures(run):
    """the statement's own oracle on figures far beyond TLC's (and a double's) integer range: networks with odd dimensions
    around 1e5, histories of slicing / projecting / restoring / reconfiguring; after every step the tracked figures must be
    the figures of a tree rebuilt from scratch (exact integer arithmetic on both sides).  Not judged by TLC: its integers
    are 32-bit (stated in DESIGN.md)."""
    import random
    import cotengra as ct
    from .. import core, nets, observe, history
    rng = random.Random(run.seed * 9173 + 4)
    quick = run.tier == "quick"
    BIG = [99991, 100003, 65537, 131071, 99989, 50021]
    pool = [n for n in nets.net_pool(rng, 30, nmin=4, nmax=7, weird=False) if n.K >= 3]
    for _ in range(40 if quick else 400):
        base = rng.choice(pool)
        net = nets.Net([list(t) for t in base.inputs], list(base.output), [rng.choice(BIG) for _ in range(base.K)], lab=base.lab)
        ssa = nets.tree_to_ssa(nets.rand_tree(rng, net.N), net.N, rng)
        d = {"net": net.to_json(), "ssa": [list(p) for p in ssa], "ops": []}
        run.count()
        run.nontrivial(("big", net.eq(), str(net.dims), str(ssa)))
        try:
            with core.watchdog(120):
                tree = observe.build_tree(ct, net, ssa)
                tree.contract_stats()
                for step in range(6):
                    free = [ix for ix in range(1, net.K + 1) if net.lab[ix] not in tree.sliced_inds and net.on(ix)]
                    how = rng.choice(["slice", "slice", "project", "restore", "reconfigure", "copy"])
                    if how == "slice" and free:
                        ix = rng.choice(free)
                        tree.remove_ind_(net.lab[ix])
                        d["ops"].append(["remove_ind", net.lab[ix]])
                    elif how == "project" and free:
                        ix = rng.choice(free)
                        v = rng.randrange(net.dim(ix))
                        tree.remove_ind_(net.lab[ix], project=v)
                        d["ops"].append(["remove_ind", net.lab[ix], v])
                    elif how == "restore" and tree.sliced_inds:
                        ind = rng.choice(sorted(tree.sliced_inds))
                        tree.restore_ind_(ind)
                        d["ops"].append(["restore_ind", ind])
                    elif how == "copy":
                        tree = tree.copy()
                        d["ops"].append(["copy"])
                    else:
                        tree.subtree_reconfigure_(subtree_size=4, maxiter=3, seed=rng.randrange(100))
                        d["ops"].append(["subtree_reconfigure"])
                    diffs = history.rebuild_equal(ct, net, tree)
                    if diffs:
                        run.violation(f"figures beyond 2^53: after {d['ops']} the tracked figures differ from a from-scratch rebuild: "
                                      f"{diffs} | eq={net.eq()} dims={net.dims}", d, tags={"big-figures", "rebuild-differs"})
                        break
        except core.Hang:
            raise
        except Exception as e:
            run.violation(f"figures beyond 2^53: history {d['ops']} raised {core.exc_text(e)} eq={net.eq()}", d, tags={"big-figures", "raised"})


def run(run):
    design_level(run)
    big_figures(run)
    _hist.run_histories(run, "figures", f"c04_{run.tier}")
    _repo.run_repo_traces(run, "figures", "c04")
    _build.run_build(run, f"c04_{run.tier}")
    run.cov["rule"] = ("histories = TLC behaviours of spec/Tree.tla concretised to the public operations; distinct by "
                       "(network, initial tree, concrete operation sequence); plus the calls the repository's own tests make (recorded, "
                       "judged by the same judge) and tree construction behaviours of spec/Build.tla replayed through "
                       "contract_nodes_pair / contract_nodes / autocomplete (BuildJudge); after every step every reported figure is "
                       "compared with its definition by TLC and with a from-scratch rebuild")
    run.assumptions += ["observation happens on tree.copy() so that queries do not heal stale caches of the object under test"]


def replay(run, desc):
    _hist.replay(run, "figures", desc, "c04_replay")
