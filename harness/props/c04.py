"""C04 - incrementally tracked costs equal a from-scratch rebuild after any history.

Same histories as C02; here every figure the tree reports after every step
(per-node legs / involved / size / flops, totals, multiplicity, sliced inputs,
preprocessing set, peak) is recomputed by TLC from spec/TreeDefs.tla on the
recorded structure, and the statement's own oracle (a tree rebuilt from
get_path() + the same sliced / projected indices reports the same) is required.
"""
from . import _hist
from .. import mc, tla
from . import _repo, _build

LEVEL = "model_checking"


def design_level(run):
    """TreeCache.tla: the implementation-shaped model of the in-place updates (remove_ind loop over the
    insertion order, restore_ind, re-creation with computed values, annealing rotations with supplied
    legs / cost / size).  The model of the code AFTER the F4 repair keeps CacheCoherent / TotalsCoherent;
    the model of the code before it is refuted (negative instance)."""
    quick = run.tier == "quick"
    run.extra["mc_instances"] = {}
    for nm in (["MC_TreeCache_repaired_quick"] if quick else ["MC_TreeCache_repaired", "MC_Tree_A"]) + (["MC_Tree_Bq"] if quick else ["MC_Tree_B"]):
        res = mc.run_mc(nm, workers=8, module="MC_TreeCache" if "TreeCache" in nm else "MC_Tree")
        run.tlc(res)
        run.extra["mc_instances"][nm] = {"states": res.distinct, "exhaustive": True}
    try:
        mc.run_mc("MC_TreeCache_unrepaired", workers=2, module="MC_TreeCache")
        raise tla.MachineryError("negative instance MC_TreeCache_unrepaired was not refuted (vacuity)")
    except tla.MachineryError as e:
        if "CacheCoherent" not in str(e) and "TotalsCoherent" not in str(e):
            raise
        run.extra["mc_instances"]["MC_TreeCache_unrepaired (negative)"] = {"violates": "CacheCoherent", "as_expected": True}


def run(run):
    design_level(run)
    _hist.run_histories(run, "figures", f"c04_{run.tier}")
    _repo.run_repo_traces(run, "figures", "c04")
    _build.run_build(run, f"c04_{run.tier}")
    run.cov["rule"] = ("histories = TLC behaviours of spec/Tree.tla concretised to the public operations; distinct by "
                       "(network, initial tree, concrete operation sequence); plus the calls the repository's own tests make (recorded, "
                       "judged by the same judge) and tree construction behaviours of spec/Build.tla replayed through "
                       "contract_nodes_pair / contract_nodes / autocomplete (BuildJudge); after every step every reported figure is "
                       "compared with its definition by TLC and with a from-scratch rebuild")
    run.assumptions += ["observation happens on tree.copy() so that queries do not heal stale caches of the object under test"]


def replay(run, desc):
    _hist.replay(run, "figures", desc, "c04_replay")
