"""C04 - incrementally tracked costs equal a from-scratch rebuild after any history.

Same histories as C02; here every figure the tree reports after every step
(per-node legs / involved / size / flops, totals, multiplicity, sliced inputs,
preprocessing set, peak) is recomputed by TLC from spec/TreeDefs.tla on the
recorded structure, and the statement's own oracle (a tree rebuilt from
get_path() + the same sliced / projected indices reports the same) is required.
"""
from . import _hist

LEVEL = "model_checking"


def run(run):
    _hist.run_histories(run, "figures", f"c04_{run.tier}")
    run.cov["rule"] = ("histories = TLC behaviours of spec/Tree.tla concretised to the public operations; distinct by "
                       "(network, initial tree, concrete operation sequence); after every step every reported figure is "
                       "compared with its definition by TLC and with a from-scratch rebuild")
    run.assumptions += ["observation happens on tree.copy() so that queries do not heal stale caches of the object under test"]


def replay(run, desc):
    _hist.replay(run, "figures", desc, "c04_replay")
