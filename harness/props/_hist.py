"""Common driver of C02 (value after histories) and C04 (figures after histories)."""
import random

from .. import core, history, nets, observe, tla


def _interesting(ops):
    names = {o["op"] for o in ops}
    s = 0
    if names & {"reconfigure", "rotate"}:
        s += 1
    if names & {"remove_ind", "project", "slice"}:
        s += 1
    if names & {"restore_ind", "unslice_all"}:
        s += 1
    if names & {"contract", "contract2", "sort", "copy"}:
        s += 1
    # a compile (contract / sort) *before* a structural change and a use after it: the
    # pattern under which stale per-node recipes or compiled cores can matter
    seq = [o["op"] for o in ops]
    struct = {"reconfigure", "rotate", "remove_ind", "project", "restore_ind", "unslice_all", "slice"}
    for i, a in enumerate(seq):
        if a in ("contract", "contract2", "sort") and any(b in struct for b in seq[i + 1:]):
            s += 1
            break
    # a compile followed later by a re-ordering of contraction indices (explicit index orders vs cached recipes)
    for i, a in enumerate(seq):
        if a in ("contract", "contract2") and "sort" in seq[i + 1:]:
            s += 1
            break
    return s


def make_histories(run, rng, quick, tag):
    """histories = (net, ssa0, abstract ops).  Skeletons come from TLC's
    exploration of spec/Tree.tla: random behaviours (-simulate) of depth 4 and 8,
    plus (thorough) the exhaustive set of all behaviours of depth 2 on a 3-tensor
    network."""
    out = []
    npool = 10 if quick else 40
    pool = nets.net_pool(rng, npool + 6, nmin=3, nmax=5 if quick else 6)
    rng.shuffle(pool)
    pool = pool[:npool]
    plans = [(4, 260 if quick else 2500), (8, 120 if quick else 1500)]
    for depth, num in plans:
        sk, res = history.skeletons_from_tlc(f"{tag}_sk{depth}", pool, num=num * 3, depth=depth,
                                             seed=run.seed * 31 + depth)
        run.tlc(res)
        sk.sort(key=lambda s: -_interesting(s[2]) + rng.random())
        for nid, ch, ops in sk[:num]:
            net = pool[nid]
            out.append((net, history.children_to_ssa(ch, net.N), ops))
    if not quick:
        small = [n for n in nets.fixed_pool() if n.N == 3][:2]
        sk, res = history.skeletons_from_tlc(f"{tag}_skx", small, num=0, depth=2, seed=0, exhaustive=True, timeout=900)
        run.tlc(res)
        run.extra["exhaustive_depth2_histories"] = len(sk)
        for nid, ch, ops in sk:
            out.append((small[nid], history.children_to_ssa(ch, small[nid].N), ops))
    return out


def run_histories(run, focus, tag):
    import cotengra as ct
    rng = random.Random(run.seed * 4099 + (2 if focus == "value" else 4))
    quick = run.tier == "quick"
    hists = make_histories(run, rng, quick, tag)
    traces, tdesc, progs, pdesc = [], [], [], []
    for hi, (net, ssa0, ops) in enumerate(hists):
        seed = rng.randrange(10**6)
        desc = {"net": net.to_json(), "ssa": [list(p) for p in ssa0], "ops": ops, "seed": seed}
        try:
            with core.watchdog(300):
                r = history.run_history(ct, net, ssa0, ops, seed)
        except core.Hang as e:
            run.violation(f"history did not terminate: {e} ops={ops}", desc, tags=["hang"])
            continue
        desc["concrete"] = r["cops"]
        run.count()
        run.nontrivial((net.eq(), str(ssa0), str(r["cops"])))
        collect(run, focus, net, r, desc, traces, tdesc, progs, pdesc)
    judge(run, focus, tag, traces, tdesc, progs, pdesc)
    return len(hists)


def prior_ops(desc, k):
    return [c["op"] for c in desc["concrete"][:k]]


def tags_for(desc, k, what):
    """structural tags of a failing step: the operation, the operations before it"""
    cops = desc["concrete"]
    tags = {what}
    if 1 <= k <= len(cops):
        tags.add("op:" + cops[k - 1]["op"])
    for c in cops[:max(k - 1, 0)]:
        tags.add("after:" + c["op"])
    return tags


def collect(run, focus, net, r, desc, traces, tdesc, progs, pdesc):
    """candidate violations are gathered per history in desc["_cand"]; judge() reports
    each history once, at its first failing step (a broken state persists through the
    later steps of the same history)"""
    desc["_cand"] = []
    for k, op, what, msg in r["findings"]:
        # harness-side findings: exceptions and wrong numeric values are C02 matters; C04 keeps
        # only those raised by queries of figures, by the operation itself, or aliasing
        if focus == "value" or what.startswith("raised:snapshot") or what.startswith("raised:rebuild") \
                or what == "raised" or what == "aliasing" or what == "raised:path":
            desc["_cand"].append((k, 0, f"step {k} ({op}): {what}: {msg}", tags_for(desc, k, what.split(':')[0])))
    if r["trace"] is not None:
        traces.append(r["trace"])
        tdesc.append(desc)
    elif desc["_cand"]:
        tdesc.append(desc)
        traces.append(None)
    if focus == "value":
        for k, op, ki, case in r["programs"]:
            progs.append(case)
            pdesc.append((desc, k, op, ki))


def judge(run, focus, tag, traces, tdesc, progs, pdesc):
    real = [t for t in traces if t is not None]
    verdicts, results = tla.judge_cases(f"{tag}_hist", "TreeHistoryJudge", real, chunk=60)
    for res in results:
        run.tlc(res)
    run.cov["traces_validated_against_impl"] += len(real)
    nev = 0
    vi = iter(verdicts)
    for tr, desc in zip(traces, tdesc):
        if tr is None:
            continue
        v = next(vi)
        nev += len(tr["events"])
        clause, pc, op = v[0], v[1], v[2]
        desc["_verdict"] = clause
        if clause == "ok":
            continue
        is_transition = clause.startswith("transition:")
        is_figure = clause.startswith("figure:") or clause.startswith("init:") or clause == "rebuild-differs"
        if (focus == "figures" and (is_figure or is_transition)) or (focus == "value" and is_transition):
            diffs = tr["events"][pc - 1].get("rebuild_diffs") if 1 <= pc <= len(tr["events"]) else None
            desc["_cand"].append((pc, 1, f"history rejected by TreeHistoryJudge at step {pc} ({op}): {clause} {diffs or ''}",
                                  tags_for(desc, pc, clause.split(':')[0]) | {clause}))
    run.extra["events_judged"] = run.extra.get("events_judged", 0) + nev
    if focus == "value" and progs:
        pv, presults = tla.judge_cases(f"{tag}_prog", "ProgramJudge", progs, chunk=400)
        for res in presults:
            run.tlc(res)
        run.extra["programs_judged"] = run.extra.get("programs_judged", 0) + len(progs)
        run.extra["values_judged_by_tlc"] = run.extra.get("values_judged_by_tlc", 0) + sum(1 for p in progs if p["check_value"])
        for (desc, k, op, ki), v in zip(pdesc, pv):
            if v[0] == "refeval-disagrees-with-spec":
                raise tla.MachineryError(f"harness evaluator disagrees with Network!Einsum after step {k} of {desc['concrete']}")
            if v[0] != "ok":
                desc["_cand"].append((k, 2, f"after step {k} ({op}) the compiled program (option key {ki}) is rejected by "
                                      f"spec/Program.tla at program step {v[1]}: {v[0]}",
                                      tags_for(desc, k, "program") | {v[0]}))
    for desc in tdesc:
        cand = desc.pop("_cand", [])
        verdict = desc.pop("_verdict", None)
        hist = [c["op"] for c in desc["concrete"]]
        if cand:
            cand.sort(key=lambda x: (x[0], x[1]))
            k, _, text, tags = cand[0]
            also = sorted({t for c in cand if c[0] == k for t in c[3]})
            run.violation(f"{text} | eq={desc['net']['eq']} dims={desc['net']['dims']} ssa={desc['ssa']} history={hist}",
                          dict(desc, failing_step=k), tags=also)
        elif verdict == "ok":
            run.sample({"eq": desc["net"]["eq"], "dims": desc["net"]["dims"], "initial_ssa": desc["ssa"],
                        "history": hist, "verdict": "accepted by TreeHistoryJudge"})


def replay(run, focus, desc, tag):
    import cotengra as ct
    net = nets.Net.from_json(desc["net"])
    ops = desc["ops"]
    r = history.run_history(ct, net, [tuple(p) for p in desc["ssa"]], ops, desc["seed"])
    d = dict(desc, concrete=r["cops"])
    traces, tdesc, progs, pdesc = [], [], [], []
    run.count()
    collect(run, focus, net, r, d, traces, tdesc, progs, pdesc)
    judge(run, focus, tag, traces, tdesc, progs, pdesc)
