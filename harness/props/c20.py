"""C20 - compressed-contraction estimates equal the exact ones when nothing is truncated.

Spec: spec/Compressed.tla, the hypergraph contract / compress machine with the
stats tracker, folded over a bottom-up order; MC_Compressed checks on all
trees of two ordinary networks that the uncapped machine is exact (flops,
largest tensor over inputs and intermediates, write = exact write + input
sizes) and that capped sizes / peak / write never exceed the uncapped ones.
Binding A: all trees (N <= 4) / random trees x orders x compress_late x chi in
{1, 2, 4, 16, huge} on the real compressed_contract_stats; every report judged
by TLC (CompressedJudge) against the machine and the exact figures.
Compressed pathfinders on connected ordinary networks must return complete
trees with a legal surface order (PathJudge).
"""
import random

from .. import core, nets, observe, tla, mc
from . import c05

LEVEL = "model_checking"
HUGE = 10**6


def run(run):
    import cotengra as ct
    rng = random.Random(run.seed * 16001 + 20)
    quick = run.tier == "quick"
    res = mc.run_mc("MC_Compressed", workers=4)
    run.tlc(res)
    run.extra["mc_instances"] = {"MC_Compressed": {"states": res.distinct, "exhaustive": True}}
    pool = [nets.ordinary_net(rng, n=rng.randint(2, 5 if quick else 7), maxdim=3, n_out=rng.choice([0, 1, 2]), hyper=rng.random() < 0.5,
                              connected_only=rng.random() < 0.8) for _ in range(16 if quick else 150)]
    cases, descs = [], []
    for net in pool:
        trees = nets.all_trees(net.N) if net.N <= 4 else [nets.rand_tree(rng, net.N) for _ in range(6)]
        if quick and len(trees) > 5:
            trees = rng.sample(trees, 5)
        for tr in trees:
            ssa = nets.tree_to_ssa(tr, net.N, rng)
            tree = observe.build_tree(ct, net, ssa)
            orders = observe.order_fns(rng)
            orders["surface_order"] = "surface_order"
            for oname in rng.sample(list(orders), 2 if quick else 4):
                o = orders[oname]
                for late in (False, True):
                    # 2..12 covers the (multi)bond sizes of these networks: chi EQUAL to the largest bond truncates nothing
                    for chi in (1, 2, 4, 16, HUGE, rng.randint(2, 12), rng.choice([3, 6, 8, 9, 12, 18, 27])):
                        d = {"net": net.to_json(), "ssa": [list(p) for p in ssa], "order": oname, "late": late, "chi": chi}
                        run.count()
                        run.nontrivial((net.eq(), str(net.dims), str(ssa), oname, late, chi))
                        try:
                            with core.watchdog(60):
                                seq = [observe.node1(p) for p, _, _ in tree.traverse(o)]
                                tr_ = tree.compressed_contract_stats(chi=chi, order=o, compress_late=late)
                        except Exception as e:
                            run.violation(f"compressed_contract_stats raised {core.exc_text(e)} eq={net.eq()} ssa={ssa} chi={chi} late={late} "
                                          f"order={oname}", d, tags={"raised"})
                            continue
                        if max(tr_.flops, tr_.write, tr_.peak_size) >= 2**31:
                            continue
                        # a derived tree (not in place) is scored with the same arguments, then the original again: its
                        # estimate is its own
                        if rng.random() < 0.15 and net.N >= 3:
                            try:
                                t2 = tree.subtree_reconfigure(subtree_size=3, maxiter=2, seed=rng.randrange(100))
                                t2.compressed_contract_stats(chi=chi, order=o, compress_late=late)
                                again = tree.compressed_contract_stats(chi=chi, order=o, compress_late=late)
                                if (again.flops, again.max_size, again.peak_size, again.write) != \
                                        (tr_.flops, tr_.max_size, tr_.peak_size, tr_.write):
                                    run.violation(f"compressed estimate of a tree changes after a tree DERIVED from it (not in place) was "
                                                  f"scored: {(tr_.flops, tr_.max_size, tr_.peak_size, tr_.write)} -> "
                                                  f"{(again.flops, again.max_size, again.peak_size, again.write)} eq={net.eq()} ssa={ssa} "
                                                  f"chi={chi} late={late} order={oname}", d, tags={"estimate", "aliasing"})
                            except Exception as e:
                                run.violation(f"compressed estimate after deriving a tree raised {core.exc_text(e)} eq={net.eq()}", d,
                                              tags={"raised", "aliasing"})
                        cases.append({"net": net.tla(), "ch": observe.children_of(tree), "seq": seq, "chi": chi, "late": late,
                                      "uncapped": chi == HUGE,
                                      "rep": {"flops": int(tr_.flops), "maxsize": int(tr_.max_size), "peak": int(tr_.peak_size),
                                              "write": int(tr_.write)}})
                        descs.append(d)
    # ---- objects of the compressed class asked WITHOUT arguments: the cap, the order and compress_late in force are those of
    # the object's objective as it is NOW (also after the objective was replaced)
    for _ in range(30 if quick else 300):
        net = rng.choice(pool)
        if net.N < 2:
            continue
        ssa = nets.tree_to_ssa(nets.rand_tree(rng, net.N), net.N, rng)
        chi1, late1 = rng.choice([1, 2, 3, 4]), rng.random() < 0.5
        from cotengra.scoring import CompressedPeakObjective, CompressedSizeObjective
        mk = rng.choice([CompressedPeakObjective, CompressedSizeObjective])
        d = {"net": net.to_json(), "ssa": [list(p) for p in ssa], "order": "default of the object", "late": late1, "chi": chi1,
             "object": "ContractionTreeCompressed, no-argument estimates"}
        run.count()
        run.nontrivial((net.eq(), str(net.dims), str(ssa), "implicit", chi1, late1, mk.__name__))
        try:
            with core.watchdog(60):
                ctw = ct.ContractionTreeCompressed.from_path(net.c_inputs(), net.c_output(), net.c_sizes(), ssa_path=ssa,
                                                             objective=mk(chi=chi1, compress_late=late1))
                seq = [observe.node1(p) for p, _, _ in ctw.traverse()]
                reps = []
                for chi_now, late_now in ((chi1, late1), (HUGE, rng.random() < 0.5)):
                    if chi_now == HUGE:
                        ctw.set_default_objective(mk(chi=HUGE, compress_late=late_now))
                    reps.append((chi_now, late_now, {"flops": int(ctw.total_flops()), "maxsize": int(ctw.max_size()),
                                                     "peak": int(ctw.peak_size()), "write": int(ctw.total_write())}))
        except Exception as e:
            run.violation(f"no-argument estimates of a compressed tree raised {core.exc_text(e)} eq={net.eq()} ssa={ssa}", d, tags={"raised", "implicit"})
            continue
        for chi_now, late_now, rep in reps:
            if max(rep.values()) >= 2**31:
                continue
            cases.append({"net": net.tla(), "ch": observe.children_of(ctw), "seq": seq, "chi": chi_now, "late": late_now,
                          "uncapped": chi_now == HUGE, "rep": rep})
            descs.append(dict(d, chi=chi_now, late=late_now, history=f"objective first chi={chi1}, then replaced by chi={chi_now}" if chi_now == HUGE else "as built"))
    verdicts, results = tla.judge_cases(f"c20_{run.tier}", "CompressedJudge", cases, chunk=250)
    for res in results:
        run.tlc(res)
    run.cov["traces_validated_against_impl"] += len(cases)
    for case, d, v in zip(cases, descs, verdicts):
        if v[0] == "spec-inconsistent":
            raise tla.MachineryError(f"Compressed.tla: NothingTruncated holds but the capped machine differs from the uncapped one: {d}")
        if v[0] == "network-not-ordinary":
            raise tla.MachineryError(f"generator produced a non-ordinary network {d}")
        if v[0] != "ok":
            run.violation(f"compressed estimate: {v[0]}: reported {case['rep']} eq={d['net']['eq']} dims={d['net']['dims']} ssa={d['ssa']} "
                          f"order={d['order']} compress_late={d['late']} chi={d['chi']}", d, tags={v[0], "estimate"})
        else:
            run.sample({"eq": d["net"]["eq"], "dims": d["net"]["dims"], "ssa": d["ssa"], "order": d["order"], "compress_late": d["late"],
                        "chi": d["chi"], "reported": case["rep"], "verdict": "ok"})
    finders(run, ct, rng, quick)
    run.cov["rule"] = ("ordinary networks (graphs, hyper-edges, output indices; 2-7 tensors) x all trees for N<=4 / random x traversal orders "
                       "(incl. surface_order) x compress_late x chi in {1,2,4,16,huge, two drawn from 2..27}; flops judged whenever chi is at least "
                       "every bond of the uncapped run (decided by the spec); compressed pathfinders on connected ordinary networks; "
                       "distinct by (network, tree, order, late, chi)")


def finders(run, ct, rng, quick):
    from cotengra.hyperoptimizers import hyper
    space, consts = hyper.get_hyper_space(), hyper.get_hyper_constants()
    cases, descs = [], []
    for _ in range(40 if quick else 500):
        net = nets.ordinary_net(rng, n=rng.randint(2, 9), maxdim=3, n_out=rng.choice([0, 1, 2, 3]), hyper=rng.random() < 0.4, connected_only=True)
        inp, out, size = net.c_inputs(), net.c_output(), net.c_sizes()
        which = rng.choice(["greedy-compressed", "greedy-span", "kahypar-agglom", "preset:greedy-compressed", "preset:greedy-span",
                            "hyper-compressed"])
        d = {"net": net.to_json(), "finder": which}
        n_out_tensors = len({t for ix in net.output for t in net.on(ix)})
        tags = {"finder:" + which.replace("preset:", ""), "output-tensors>=3" if n_out_tensors >= 3 else "output-tensors<3"}
        run.count()
        run.nontrivial((which, net.eq(), str(net.dims)))
        try:
            with core.watchdog(120):
                if which.startswith("preset:"):
                    tree = ct.array_contract_tree(inp, out, size, optimize=which.split(":")[1], canonicalize=False)
                elif which == "hyper-compressed":
                    tree = ct.HyperCompressedOptimizer(chi=rng.choice([2, 4, 16]), max_repeats=3, parallel=False, optlib="random",
                                                       on_trial_error="raise").search(inp, out, size)
                else:
                    params = c05.sample_params(space[which], rng)
                    d["params"] = params
                    tree = hyper.base_trial_fn(inp, out, size, which, **params, **consts[which])["tree"]
                sp = tree.get_ssa_path(order="surface_order") if net.N > 1 else ()
        except Exception as e:
            run.violation(f"compressed finder {which} raised {core.exc_text(e)} on connected ordinary network eq={net.eq()} "
                          f"(tensors carrying output indices: {n_out_tensors})", d, tags=tags | {"raised", type(e).__name__})
            continue
        chl = [[frozenset(map(int, p)), frozenset(map(int, l)), frozenset(map(int, r))] for p, (l, r) in tree.children.items()]
        cases.append({"kind": "emit_ssa" if net.N > 1 else "tree", "N": net.N, "ch": chl, "path": [list(map(int, p)) for p in sp]})
        descs.append((d, tags))
    verdicts, results = tla.judge_cases(f"c20_{run.tier}_f", "PathJudge", cases, chunk=300)
    for res in results:
        run.tlc(res)
    run.cov["traces_validated_against_impl"] += len(cases)
    for case, (d, tags), v in zip(cases, descs, verdicts):
        if v[0] != "ok":
            run.violation(f"compressed finder {d['finder']}: {v[0]} eq={d['net']['eq']}", d, tags=tags | {v[0]})


def replay(run, d):
    raise tla.MachineryError("C20 replay: rerun ./check C20 with the same VERIF_SEED")
