"""C18 - internal cost simulators agree; optimizers report the cost of what they return.

Spec: the single definitional action Contract(l, r) of spec/Network.tla (legs,
size, flops of a pairwise step), with the two leaf conventions LeafLegs /
LeafLegsRaw.  Four trace bindings replay the SAME ssa path step by step: the
tree (contract_nodes_pair), the hypergraph (contract / compute_contracted_inds
/ candidate_contraction_size / contract_pair_cost), the ContractionProcessor
(contract_nodes + compute_contracted / compute_flops, raw and after
simplify_single_terms) and the annealer's compute_contracted_info; every
reported step is judged by TLC (StepJudge).  Reported-cost clause: best_flops
of the random-greedy optimizers and the stored score of the reusable
optimizers equal the definitional cost of the tree built from the returned
path (SnapshotJudge gives the definitional flops).

The hypergraph simulator is also specified as a state machine of its own
(spec/HGSim.tla, props/_hgsim.py): design-level instances, then TLC-generated
behaviours (any two live nodes, generated / caller-chosen ids, copies)
replayed on the real object with the whole state judged after every call.
"""
import itertools
import math
import random

from .. import core, nets, observe, tla

LEVEL = "model_checking"


def all_ssa_paths(n):
    """all pairwise ssa paths over n leaves"""
    out = []

    def rec(alive, nxt, path):
        if len(alive) == 1:
            out.append(list(path))
            return
        for a, b in itertools.combinations(sorted(alive), 2):
            rec((alive - {a, b}) | {nxt}, nxt + 1, path + [(a, b)])
    rec(frozenset(range(n)), n, [])
    return out


def sim_tree(ct, net, ssa):
    tree = ct.ContractionTree(net.c_inputs(), net.c_output(), net.c_sizes())
    nodes = {i: frozenset([i]) for i in range(net.N)}
    steps = []
    nxt = net.N
    for a, b in ssa:
        p = tree.contract_nodes_pair(nodes[a], nodes[b])
        steps.append({"l": observe.node1(nodes[a]), "r": observe.node1(nodes[b]), "legs": observe.ixset(net, tree.get_legs(p)),
                      "size": int(tree.get_size(p)), "flops": int(tree.get_flops(p))})
        nodes[nxt] = p
        nxt += 1
    return steps


def sim_hypergraph(ct, net, ssa):
    from cotengra.hypergraph import HyperGraph
    hg = HyperGraph(net.c_inputs(), net.c_output(), net.c_sizes())
    ids = {i: i for i in range(net.N)}
    members = {i: frozenset([i + 1]) for i in range(net.N)}
    steps = []
    nxt = net.N
    for a, b in ssa:
        i, j = ids[a], ids[b]
        cost = hg.contract_pair_cost(i, j)
        pred = set(hg.compute_contracted_inds((i, j)))
        cand = hg.candidate_contraction_size(i, j)
        k = hg.contract(i, j)
        legs = set(hg.get_node(k))
        extra = None
        if pred != legs:
            extra = "compute_contracted_inds disagrees with contract"
        if cand != hg.node_size(k):
            extra = "candidate_contraction_size disagrees with node_size after contract"
        steps.append({"l": members[a], "r": members[b], "legs": observe.ixset(net, legs), "size": int(hg.node_size(k)),
                      "flops": int(cost), "_extra": extra})
        ids[nxt] = k
        members[nxt] = members[a] | members[b]
        nxt += 1
    return steps


def sim_processor(ct, net, ssa, simplify):
    from cotengra.pathfinders import path_basic as pb
    cp = pb.ContractionProcessor(net.c_inputs(), net.c_output(), net.c_sizes(), track_flops=True)
    ids = {i: i for i in range(net.N)}
    if simplify:
        cp.simplify_single_terms()
        # simplified single terms get new ssa ids, recorded in cp.ssa_path as (i,)
        for st in cp.ssa_path:
            pass
        remap = {}
        cnt = net.N
        for st in cp.ssa_path:
            remap[st[0]] = cnt
            cnt += 1
        ids = {i: remap.get(i, i) for i in range(net.N)}
    inv = {v: k for k, v in cp.indmap.items()}
    members = {i: frozenset([i + 1]) for i in range(net.N)}
    steps = []
    nxt = net.N
    for a, b in ssa:
        i, j = ids[a], ids[b]
        ilegs, jlegs = cp.nodes[i], cp.nodes[j]
        fl = pb.compute_flops(ilegs, jlegs, cp.sizes)
        f0 = cp.flops
        k = cp.contract_nodes(i, j)
        legs = {inv[ix] for ix, _ in cp.nodes[k]}
        extra = None
        if cp.flops - f0 != fl:
            extra = "tracked flops differ from compute_flops"
        steps.append({"l": members[a], "r": members[b], "legs": observe.ixset(net, legs),
                      "size": int(pb.compute_size(cp.nodes[k], cp.sizes)), "flops": int(fl), "_extra": extra})
        ids[nxt] = k
        members[nxt] = members[a] | members[b]
        nxt += 1
    return steps


def sim_anneal(ct, net, ssa):
    from cotengra.pathfinders.path_simulated_annealing import compute_contracted_info
    tree = ct.ContractionTree(net.c_inputs(), net.c_output(), net.c_sizes())
    legs = {i: tree.get_legs(frozenset([i])) for i in range(net.N)}
    members = {i: frozenset([i + 1]) for i in range(net.N)}
    steps = []
    nxt = net.N
    for a, b in ssa:
        lab, cost, size = compute_contracted_info(legs[a], legs[b], tree.appearances, tree.size_dict)
        steps.append({"l": members[a], "r": members[b], "legs": observe.ixset(net, lab), "size": int(size), "flops": int(cost)})
        legs[nxt] = lab
        members[nxt] = members[a] | members[b]
        nxt += 1
    return steps


def run(run):
    import cotengra as ct
    rng = random.Random(run.seed * 15013 + 18)
    quick = run.tier == "quick"
    pool = nets.net_pool(rng, 30 if quick else 200, nmin=2, nmax=6 if quick else 8)
    cases, descs = [], []
    for net in pool:
        if net.N <= 4:
            paths = all_ssa_paths(net.N)
            if quick and len(paths) > 6:
                paths = rng.sample(paths, 6)
        else:
            paths = [nets.tree_to_ssa(nets.rand_tree(rng, net.N), net.N, rng) for _ in range(4 if quick else 20)]
        sims = [("tree", "def", lambda n, p: sim_tree(ct, n, p)), ("annealer", "def", lambda n, p: sim_anneal(ct, n, p)),
                ("processor-simplified", "def", lambda n, p: sim_processor(ct, n, p, True))]
        if not net.has_repeat():
            sims += [("hypergraph", "raw", lambda n, p: sim_hypergraph(ct, n, p))]
            if not net.has_dangling():
                # the un-simplified processor is only meant for networks without single-tensor simplifications
                sims += [("processor-raw", "raw", lambda n, p: sim_processor(ct, n, p, False))]
        for ssa in paths:
            for name, conv, fn in sims:
                d = {"net": net.to_json(), "ssa": [list(p) for p in ssa], "sim": name}
                run.count()
                run.nontrivial((net.eq(), str(net.dims), str(ssa), name))
                try:
                    with core.watchdog(60):
                        steps = fn(net, ssa)
                except Exception as e:
                    run.violation(f"simulator {name} raised {core.exc_text(e)} on eq={net.eq()} path={ssa}", d, tags={"raised", "sim:" + name})
                    continue
                for s in steps:
                    ex = s.pop("_extra", None)
                    if ex:
                        run.violation(f"simulator {name}: {ex} on eq={net.eq()} path={ssa}", d, tags={"inconsistent", "sim:" + name})
                if any(s["flops"] >= 2**31 for s in steps):
                    continue
                cases.append({"net": net.tla(), "conv": conv, "sim": name, "steps": steps})
                descs.append(d)
    verdicts, results = tla.judge_cases(f"c18_{run.tier}", "StepJudge", cases, chunk=500)
    for res in results:
        run.tlc(res)
    run.cov["traces_validated_against_impl"] += len(cases)
    for case, d, v in zip(cases, descs, verdicts):
        if v[0] != "ok":
            s = case["steps"][v[1] - 1]
            run.violation(f"simulator {d['sim']} disagrees with the definition at step {v[1]}: {v[0]}: reported legs={sorted(s['legs'])} "
                          f"size={s['size']} flops={s['flops']} | eq={d['net']['eq']} dims={d['net']['dims']} path={d['ssa']}", d,
                          tags={v[0], "sim:" + d["sim"]})
        else:
            run.sample({"eq": d["net"]["eq"], "dims": d["net"]["dims"], "ssa": d["ssa"], "simulator": d["sim"],
                        "steps": [{k: (sorted(x) if isinstance(x, (set, frozenset)) else x) for k, x in s.items()} for s in case["steps"]][:3]})
    from . import _hgsim
    _hgsim.run_hgsim(run, "c18")
    reported_costs(run, ct, rng, quick)
    run.cov["rule"] = ("networks (hyper, output-on-many, shared-by-all, dangling, scalars; hypergraph / raw processor: no repeated index) x "
                       "all ssa paths for N<=4, random beyond x 5 simulators replaying the same path; reported-cost clause on random-greedy "
                       "and reusable optimizers; distinct by (network, path, simulator)")


def reported_costs(run, ct, rng, quick):
    from cotengra.pathfinders.path_basic import optimize_random_greedy_track_flops
    snaps, descs = [], []
    nn = 40 if quick else 400
    pool = nets.net_pool(rng, nn, nmin=2, nmax=7)
    # structured members: a scalar factor, tensors with identical index sets and an index carried by all the other tensors
    # (simplification passes interact: de-duplication can leave an index on every remaining term)
    for _ in range(6 if quick else 60):
        dims = [rng.randint(2, 3) for _ in range(6)]
        c, f, d_, e_ = 1, 2, 3, 4
        inputs = [[], [c, f], [c, f], [c, d_], [c, e_]]
        if rng.random() < 0.5:
            inputs[0] = [5, 5]                       # a fully traced tensor instead of an empty one
        if rng.random() < 0.5:
            inputs.append([c, f])
        if rng.random() < 0.5:
            inputs.append([c, 6])
        out = [d_, e_] + ([6] if any(6 in t for t in inputs) else [])
        rng.shuffle(inputs)
        used = sorted({x for t in inputs for x in t})
        ren = {x: k + 1 for k, x in enumerate(used)}
        pool.append(nets.Net([[ren[x] for x in t] for t in inputs], [ren[x] for x in out], [dims[x - 1] for x in used], kind="dedup+batch"))
    for net in pool:
        inp, out, size = net.c_inputs(), net.c_output(), net.c_sizes()
        seed = rng.randrange(10**6)
        entries = []
        try:
            with core.watchdog(120):
                p, lf = optimize_random_greedy_track_flops(inp, out, size, ntrials=3, seed=seed, use_ssa=True)
                entries.append(("optimize_random_greedy_track_flops", p, 10 ** lf))
                p2, lf2 = optimize_random_greedy_track_flops(inp, out, size, ntrials=3, seed=seed, use_ssa=True, simplify=False) \
                    if not net.has_repeat() and not net.has_dangling() and "scalar" not in net.features() else (None, None)
                if p2 is not None:
                    entries.append(("optimize_random_greedy_track_flops(simplify=False)", p2, 10 ** lf2))
                o = ct.RandomGreedyOptimizer(max_repeats=3, seed=seed, parallel=False)
                t = o.search(inp, out, size)
                entries.append(("RandomGreedyOptimizer.best_flops", o.best_ssa_path, 10 ** o.best_flops))
                entries.append(("RandomGreedyOptimizer.search returned tree", None, 10 ** o.best_flops, t))
                # the same object asked again for the same contraction (it accumulates its best over calls): what it
                # hands back each time must be what its reported cost belongs to
                o2 = ct.RandomGreedyOptimizer(max_repeats=2, seed=seed, parallel=False, temperature=rng.choice([0.01, 1.0, 3.0]))
                for k in range(4):
                    how = rng.choice(["search", "call", "ssa_path"])
                    if how == "search":
                        rt = o2.search(inp, out, size)
                    elif how == "call":
                        rt = ct.ContractionTree.from_path(inp, out, size, path=o2(inp, out, size))
                    else:
                        rt = ct.ContractionTree.from_path(inp, out, size, ssa_path=o2.ssa_path(inp, out, size))
                    entries.append((f"RandomGreedyOptimizer call {k + 1} ({how}) returned path vs best_flops", None, 10 ** o2.best_flops, rt))
                ro = ct.ReusableRandomGreedyOptimizer(max_repeats=3, seed=seed, parallel=False)
                tr = ro.search(inp, out, size)
                h = ro.hash_query(inp, out, size)[0]
                con = ro._cache[h]
                entries.append(("ReusableRandomGreedyOptimizer stored score", None, 10 ** con["score"], tr))
                rh = ct.ReusableHyperOptimizer(methods=["greedy"], max_repeats=2, optlib="random", parallel=False)
                th = rh.search(inp, out, size)
                con = rh._cache[rh.hash_query(inp, out, size)[0]]
                entries.append(("ReusableHyperOptimizer stored score", None, None, th, con["score"]))
        except Exception as e:
            if net.N >= 2:
                run.violation(f"optimizer raised {core.exc_text(e)} on eq={net.eq()}", {"net": net.to_json()}, tags={"raised", "reported-cost"})
            continue
        for ent in entries:
            name = ent[0]
            run.count()
            run.nontrivial((name, net.eq(), str(net.dims), seed))
            d = {"net": net.to_json(), "api": name, "seed": seed}
            if name == "ReusableHyperOptimizer stored score":
                tree, sc = ent[3], ent[4]
                tree2 = ct.ContractionTree.from_path(inp, out, size, path=tree.get_path())
                for ix in tree.sliced_inds:
                    tree2.remove_ind_(ix)
                tree2.set_default_objective(rh.minimize)
                if abs(tree2.get_score() - sc) > 1e-9 * max(1, abs(sc)):
                    run.violation(f"{name} {sc} differs from the score {tree2.get_score()} of the tree built from the stored path "
                                  f"(eq={net.eq()})", d, tags={"reported-cost", "api:" + name})
                continue
            if len(ent) == 4:
                tree, claimed = ent[3], ent[2]
            else:
                tree, claimed = ct.ContractionTree.from_path(inp, out, size, ssa_path=[tuple(x) for x in ent[1]]), ent[2]
            if net.N < 2:
                continue
            snap = observe.snapshot(net, tree)
            if observe.snapshot_max(snap) >= 2**31:
                continue
            real = snap["stats"]["flops"]
            snaps.append(snap)
            d["claimed"], d["tree_flops"] = claimed, real
            descs.append(d)
            if abs(claimed - real) > 1e-6 * max(1, real):
                feats = net.features()
                run.violation(f"{name} reports flops {claimed:.6g} but the tree built from the returned path costs {real} "
                              f"(eq={net.eq()} dims={net.dims}, features={sorted(feats)})", d,
                              tags={"reported-cost", "api:" + name.split("(")[0].split(" ")[0]} | ({"index-on-all-tensors"} if "on-all" in feats else set()))
    # the tree's own flops figure is tied to the definition by TLC
    verdicts, results = tla.judge_cases(f"c18_{run.tier}_cost", "SnapshotJudge", snaps, chunk=400)
    for res in results:
        run.tlc(res)
    run.cov["traces_validated_against_impl"] += len(snaps)
    for d, v in zip(descs, verdicts):
        if v[0] != "ok":
            run.violation(f"tree built from the path returned by {d['api']}: figures disagree with the definitions: {v[0]}", d,
                          tags={v[0], "reported-cost"})
    run.extra["reported_costs_checked"] = len(snaps)


def replay(run, d):
    raise tla.MachineryError("C18 replay: rerun ./check C18 with the same VERIF_SEED")
