"""C17 - operations that take a seed are deterministic functions of their arguments.

Spec: spec/Determinism.tla (a functional-dependency monitor: what belongs to
the call key and what - the environment - may not influence the result).
Binding B: every seeded API x networks x seeds is executed in fresh
interpreters with PYTHONHASHSEED in {0, 1, 12345, random}, with the global
random generators deliberately perturbed between calls and with different call
orders; the merged observations are judged by TLC (DeterminismJudge).
"""
import json
import os
import random
import subprocess
import sys
from concurrent.futures import ThreadPoolExecutor

from .. import core, tla, mc

LEVEL = "model_checking"

APIS = [
    ("RandomGreedyOptimizer", {}), ("optimize_random_greedy_track_flops", {}), ("RandomOptimizer", {}),
    ("labels.build_divide", {}), ("labels.build_agglom", {}), ("kahypar.build_divide", {}), ("kahypar.build_agglom", {}),
    ("tree.slice", {}), ("SliceFinder", {}), ("unslice_rand", {}),
    ("subtree_reconfigure", {"subtree_search": "bfs", "select": "random"}),
    ("subtree_reconfigure", {"subtree_search": "random", "select": "max"}),
    ("subtree_reconfigure", {"subtree_search": "random", "select": "random"}),
    ("subtree_reconfigure", {"subtree_search": "dfs", "select": "min"}),
    ("subtree_reconfigure_forest", {}),
    ("simulated_anneal", {}), ("simulated_anneal", {"target_size": 8, "slice_mode": "basic"}),
    ("simulated_anneal", {"target_size": 8, "slice_mode": "drift"}),
    ("simulated_anneal", {"target_size": "current", "slice_mode": "drift", "presliced": True}),
    ("simulated_anneal", {"target_size": "current", "slice_mode": "basic", "presliced": True}),
    ("simulated_anneal", {"target_size": 8, "slice_mode": "reslice", "presliced": True}),
    ("parallel_temper", {}), ("parallel_temper", {"target_size": 8}),
    ("parallel_temper", {"target_size": "current", "presliced": True}),
    ("tree.slice", {"reslice": True, "presliced": True}),
    ("get_subtree", {}),
    # restricted index sets (set arithmetic on index names must not leak its iteration order)
    ("tree.slice", {"allow_outer": False}), ("tree.slice", {"allow_outer": "only"}),
    # an in-process pool whose tasks run in submission order in some environments and in reverse order in others
    ("parallel_temper", {"pool": "lazy"}), ("parallel_temper", {"pool": "lazy", "target_size": 8}),
    ("subtree_reconfigure_forest", {"pool": "lazy"}),
    ("RandomGreedyOptimizer", {"pool": "timed"}),
    # the tree has a past (reconfigured, queried, copied) and the same non-inplace seeded call is made twice on it
    ("subtree_reconfigure", {"subtree_search": "bfs", "select": "random", "warm": True, "repeat": True}),
    ("subtree_reconfigure", {"subtree_search": "random", "select": "max", "warm": True, "repeat": True}),
    ("subtree_reconfigure_forest", {"warm": True, "repeat": True}),
    ("simulated_anneal", {"warm": True, "repeat": True}),
    ("parallel_temper", {"warm": True, "repeat": True}),
    ("tree.slice", {"warm": True, "repeat": True}),
    ("get_subtree", {"warm": True, "repeat": True}),
    # compressed trees refine themselves with another annealer / the windowed optimizer
    ("compressed.simulated_anneal", {}), ("compressed.simulated_anneal_default_objective", {}),
    ("compressed.windowed_reconfigure", {}), ("windowed_reconfigure", {}),
]
GENS = ["rand_equation", "tree_equation", "randreg_equation", "perverse_equation", "lattice_equation",
        "make_rand_size_dict_from_inputs", "make_arrays_from_inputs", "rand_tree"]


def run_env(calls, env):
    e = dict(os.environ, PYTHONHASHSEED=str(env["hashseed"]))
    p = subprocess.run([sys.executable, "-m", "harness.det_child", json.dumps(env)], input=json.dumps(calls), capture_output=True,
                       text=True, timeout=1500, cwd=core.VERIF, env=e)
    for line in p.stdout.splitlines():
        if line.startswith("RESULT "):
            return dict(json.loads(line[7:]))
    raise tla.MachineryError(f"determinism child failed: {p.stderr[-600:]}")


def run(run):
    rng = random.Random(run.seed * 18013 + 17)
    quick = run.tier == "quick"
    res = mc.run_mc("MC_Determinism", workers=1)
    run.tlc(res)
    run.extra["mc_instances"] = {"MC_Determinism": {"states": res.distinct}}
    calls = []
    nets_ = ["ring8", "grid9", "hyper12"]
    seeds = [rng.randrange(10**6) for _ in range(2 if quick else 8)]
    for api, kw in APIS:
        for netk in (rng.sample(nets_, 2) if quick else nets_):
            for s in seeds:
                calls.append({"api": api, "net": netk, "seed": s, "kw": kw})
    for g in GENS:
        for s in seeds:
            calls.append({"api": "gen:" + g, "seed": s})
            if g.endswith("_equation"):
                # the returned network is edited in place, then the same seeded call is made again
                calls.append({"api": "gen:" + g, "seed": s, "kw": {"repeat": True}})
    envs = [{"hashseed": 0, "perturb": 1, "order": 1}, {"hashseed": 1, "perturb": 2, "order": 2},
            {"hashseed": 12345, "perturb": 3, "order": 3}, {"hashseed": "random", "perturb": 4, "order": 4}]
    if not quick:
        envs += [{"hashseed": "random", "perturb": 5 + k, "order": 5 + k} for k in range(4)]
    with ThreadPoolExecutor(len(envs)) as ex:
        outs = list(ex.map(lambda e: run_env(calls, e), envs))
    cases, descs = [], []
    for i, call in enumerate(calls):
        obs = []
        for k, o in enumerate(outs):
            dg = o[str(i)] if str(i) in o else o[i]
            if "|" in dg and not dg.startswith("raised:"):
                d1, d2 = dg.split("|")
                obs += [{"env": k + 1, "digest": d1}, {"env": 100 + k + 1, "digest": d2}]   # 100+: the repeated call
            else:
                obs.append({"env": k + 1, "digest": dg})
        cases.append({"key": i + 1, "obs": obs})
        descs.append(call)
        run.count(len(obs))
        run.nontrivial(json.dumps(call, sort_keys=True))
    verdicts, results = tla.judge_cases(f"c17_{run.tier}", "DeterminismJudge", cases, chunk=1000)
    for r_ in results:
        run.tlc(r_)
    run.cov["traces_validated_against_impl"] += len(cases)
    for case, call, v in zip(cases, descs, verdicts):
        digs = [o["digest"] for o in case["obs"]]
        if any(d.startswith("raised:") for d in digs) and len(set(digs)) == 1:
            # the same exception in every environment is a deterministic outcome: not a matter of C17
            run.extra.setdefault("calls_raising_consistently", []).append({"call": call, "error": digs[0]})
            continue
        if v[0] != "ok":
            tag_kw = {f"{k}={val}" for k, val in call.get("kw", {}).items()}
            run.violation(f"{call['api']}({call.get('kw')}, seed={call['seed']}) on {call.get('net')}: {len(set(digs))} different results in "
                          f"{len(digs)} observations (fresh interpreters with hash seeds {[e['hashseed'] for e in envs]}"
                          f"{'; each made the call twice on the same object' if call.get('kw', {}).get('repeat') else ''}): {digs}", call,
                          tags={v[0], "api:" + call["api"]} | tag_kw)
        else:
            run.sample({"call": call, "environments": [e["hashseed"] for e in envs], "digest": digs[0]})
    run.cov["rule"] = ("every seeded public API (27 configurations + 8 generators) x 2-3 networks x seeds, each executed in 4 (quick) / 8 "
                       "(thorough) fresh interpreters with different PYTHONHASHSEED, perturbed global RNG state and different call orders; "
                       "distinct by call key (api, kwargs, network, seed); evaluations = observations")
    run.assumptions += ["digest = sha1 of the repr of the returned path / sliced indices / arrays"]


def replay(run, d):
    raise tla.MachineryError("C17 replay: rerun ./check C17 with the same VERIF_SEED")
