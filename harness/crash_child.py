"""Child process of the C15 check.

  store  <dir> <split> <overwrite> <marker> <plan-json> <which>   run one search that stores an entry, crashing per plan
  query  <dir> <split> <which> <cache_only>                       fresh process querying contraction <which>
  store2 <dir> <split> <which>                                    two forked workers sharing one inherited object, one killed

The crash plan is realised by wrappers installed in THIS process only
(pathlib.Path.mkdir, builtins.open for files under <dir> opened for writing,
os.replace / os.rename): ("before", step) exits just before that step,
("bytes", num, den) exits after num/den of the payload bytes reached the file.
"""
import builtins
import json
import os
import pathlib
import sys
import warnings

warnings.filterwarnings("ignore")
sys.path.insert(0, os.environ.get("VERIF_REPO", "/repo"))

CONS = {
    "A": ((("a", "b"), ("b", "c"), ("c", "d"), ("d", "a")), ("a",), {"a": 2, "b": 3, "c": 2, "d": 3}),
    "B": ((("x", "y"), ("y", "z"), ("z", "w")), ("x", "w"), {"x": 2, "y": 2, "z": 3, "w": 2}),
}


SPLIT = {"True": True, "False": False, "auto": "auto"}


def make_opt(directory, split, overwrite, cache_only, marker):
    import cotengra as ct

    class Opt(ct.ReusableHyperOptimizer):
        def _run_optimizer(self, inputs, output, size_dict):
            con = dict(super()._run_optimizer(inputs, output, size_dict))
            con["verif_writer"] = marker
            con["verif_pad"] = "a.b.c"        # interior 0x2e bytes in the pickled entry (0x2e also ends every pickle)
            Opt.ran = True
            return con
    Opt.ran = False
    ow = {"False": False, "True": True, "improved": "improved"}[overwrite]
    return Opt(methods=["greedy"], max_repeats=2, optlib="random", parallel=False, directory=directory,
               directory_split=split, overwrite=ow, cache_only=cache_only), Opt


def install(plan, directory):
    kind = plan[0]
    real_open = builtins.open
    real_mkdir = pathlib.Path.mkdir
    real_replace, real_rename = os.replace, os.rename
    droot = os.path.realpath(directory)

    def under(p):
        try:
            return os.path.realpath(str(p)).startswith(droot + os.sep)
        except Exception:
            return False

    def die():
        sys.stdout.write(json.dumps({"crashed": True}) + "\n")
        sys.stdout.flush()
        os._exit(9)

    class Proxy:
        def __init__(self, f):
            self.f = f
            self.buf = b""

        def write(self, data):
            self.buf += bytes(data)
            return len(data)

        def __enter__(self):
            return self

        def __exit__(self, *a):
            self.close()
            return False

        def close(self):
            data = self.buf
            if kind == "bytes":
                n = (len(data) * plan[1]) // plan[2]
                if plan[1] > 0 and n == 0:
                    n = 1
                self.f.write(data[:n])
                self.f.flush()
                os.fsync(self.f.fileno())
                if n < len(data) or plan[1] == plan[2]:
                    die()       # (num == den: all bytes written, crash before close)
            if kind == "raise":
                # the writer dies by an EXCEPTION while storing (disk full, interrupt): its cleanup code runs
                n = (len(data) * plan[1]) // plan[2]
                self.f.write(data[:n])
                self.f.flush()
                os.fsync(self.f.fileno())
                try:
                    self.f.close()
                except Exception:
                    pass
                if plan[3] == "KeyboardInterrupt":
                    raise KeyboardInterrupt()
                raise OSError(28, "No space left on device")
            if kind in ("afterbyte", "offset"):
                if kind == "afterbyte":
                    # right after the j-th INTERIOR occurrence of a byte value (0x2e is also pickle's STOP opcode)
                    pos = [i for i, b_ in enumerate(data[:-1]) if b_ == plan[1]]
                    n = pos[plan[2] - 1] + 1 if len(pos) >= plan[2] else None
                else:
                    n = plan[1] if plan[1] < len(data) else None
                if n is not None:
                    self.f.write(data[:n])
                    self.f.flush()
                    os.fsync(self.f.fileno())
                    die()
            self.f.write(data)
            self.f.flush()
            if kind == "before" and plan[1] == "close":
                die()
            self.f.close()

        def __getattr__(self, k):
            return getattr(self.f, k)

    def open_(file, mode="r", *a, **kw):
        if isinstance(file, (str, os.PathLike)) and ("w" in mode or "a" in mode or "+" in mode) and under(file):
            if kind == "before" and plan[1] == "open":
                die()
            return Proxy(real_open(file, mode if "b" in mode else mode + "b", buffering=0))
        return real_open(file, mode, *a, **kw)

    def mkdir_(self, *a, **kw):
        if under(self) and kind == "before" and plan[1] == "mkdir":
            die()
        return real_mkdir(self, *a, **kw)

    def replace_(src, dst, *a, **kw):
        if under(dst) and kind == "before" and plan[1] == "rename":
            die()
        r = real_replace(src, dst, *a, **kw)
        if under(dst) and kind == "after" and plan[1] == "rename":
            die()
        return r

    def rename_(src, dst, *a, **kw):
        if under(dst) and kind == "before" and plan[1] == "rename":
            die()
        r = real_rename(src, dst, *a, **kw)
        if under(dst) and kind == "after" and plan[1] == "rename":
            die()
        return r

    builtins.open = open_
    pathlib.Path.mkdir = mkdir_
    os.replace = replace_
    os.rename = rename_


def main():
    mode = sys.argv[1]
    if mode == "store":
        directory, split, overwrite, marker, plan, which = sys.argv[2:8]
        plan = json.loads(plan)
        opt, cls = make_opt(directory, SPLIT[split], overwrite, False, marker)
        if plan[0] != "none":
            install(plan, directory)
        inputs, output, size = CONS[which]
        try:
            tree = opt.search(inputs, output, size)
        except BaseException as e:      # noqa
            if plan[0] == "raise":
                # death by exception: the interpreter unwinds (context managers, callbacks run) and the process ends
                sys.stdout.write(json.dumps({"crashed": True, "how": type(e).__name__}) + "\n")
                sys.stdout.flush()
                os._exit(9)
            raise
        print(json.dumps({"crashed": False, "ran": cls.ran, "complete": tree.is_complete()}))
    elif mode == "store2":
        # TWO workers forked from one process that built the optimizer object (they inherit it): worker B writes its entry
        # completely and stops just before moving it into place; worker A then opens ITS temporary file for writing and is
        # killed right after the open; B goes on.  With per-writer temporary names B's complete entry lands under the
        # final name.
        directory, split, which = sys.argv[2:5]
        opt, cls = make_opt(directory, SPLIT[split], "False", False, "new")
        inputs, output, size = CONS[which]
        r_a, w_a = os.pipe()
        r_b, w_b = os.pipe()
        droot = os.path.realpath(directory)
        pid_b = os.fork()
        if pid_b == 0:
            real_replace = os.replace

            def replace(src, dst):
                if os.path.realpath(str(dst)).startswith(droot + os.sep):
                    os.write(w_b, b"x")
                    os.read(r_a, 1)
                return real_replace(src, dst)
            os.replace = replace
            try:
                opt.search(inputs, output, size)
            finally:
                os.write(w_b, b"x")         # (never leave the other worker waiting)
                os._exit(0)
        pid_a = os.fork()
        if pid_a == 0:
            os.read(r_b, 1)
            real_open = builtins.open

            def open_(file, mode="r", *a, **k):
                f = real_open(file, mode, *a, **k)
                if "w" in mode and os.path.realpath(str(file)).startswith(droot + os.sep):
                    os.write(w_a, b"x")
                    os._exit(9)
                return f
            builtins.open = open_
            try:
                opt.search(inputs, output, size)
            finally:
                os.write(w_a, b"x")
                os._exit(0)
        _, st_a = os.waitpid(pid_a, 0)
        _, st_b = os.waitpid(pid_b, 0)
        print(json.dumps({"crashed": os.WEXITSTATUS(st_a) == 9, "a": os.WEXITSTATUS(st_a), "b": os.WEXITSTATUS(st_b)}))
    elif mode == "query":
        directory, split, which, cache_only = sys.argv[2:6]
        opt, cls = make_opt(directory, SPLIT[split], "False", cache_only == "True", "reader")
        inputs, output, size = CONS[which]
        try:
            tree = opt.search(inputs, output, size)
            ok = tree.is_complete() and tuple(map(tuple, tree.inputs)) == inputs and tuple(tree.output) == output
            h = opt.hash_query(inputs, output, size)[0]
            mc_ = opt._cache._mem_cache
            con = mc_.get(h) or mc_.get((h,) if not isinstance(h, tuple) else h) or {}
            print(json.dumps({"outcome": "searched" if cls.ran else con.get("verif_writer", "?"), "valid": bool(ok)}))
        except BaseException as e:
            print(json.dumps({"outcome": "error", "error": f"{type(e).__name__}: {e}"[:200]}))


if __name__ == "__main__":
    main()
