"""Child process of the C17 check: executes a list of seeded calls and prints one
digest per call.  argv: <env json>; stdin: json list of call descriptions."""
import hashlib
import json
import os
import random
import sys
import warnings

warnings.filterwarnings("ignore")
sys.path.insert(0, os.environ.get("VERIF_REPO", "/repo"))


ENV = {"lifo": False}


class LazyFuture:
    def __init__(self, pool, fn, args, kwargs):
        self.pool, self.call = pool, (fn, args, kwargs)
        self.value = self.exc = None
        self.ran = False

    def run(self):
        fn, a, k = self.call
        try:
            self.value = fn(*a, **k)
        except BaseException as e:      # noqa
            self.exc = e
        self.ran = True

    def done(self):
        self.pool.flush()
        return True

    def result(self):
        self.pool.flush()
        if self.exc is not None:
            raise self.exc
        return self.value

    def cancel(self):
        return False


class LazyExecutor:
    """in-process pool without real concurrency: the submitted tasks run when the first result is asked for, in
    submission order or (environment dependent) in reverse - a legal schedule of a pool with several workers"""
    _max_workers = 3

    def __init__(self, lifo):
        self.lifo, self.pending = lifo, []

    def submit(self, fn, *args, **kwargs):
        f = LazyFuture(self, fn, args, kwargs)
        self.pending.append(f)
        return f

    def flush(self):
        pend, self.pending = self.pending, []
        for f in (reversed(pend) if self.lifo else pend):
            f.run()


class TimedExecutor:
    """in-process pool handing out real concurrent.futures.Future objects; a helper thread completes the submitted tasks a
    moment later, in submission order or (environment dependent) in reverse - so that both `f.result()` and
    `as_completed(...)` see a legal but different completion order"""
    _max_workers = 3

    def __init__(self, lifo):
        import threading
        self.lifo, self.pending, self.lock = lifo, [], threading.Lock()
        self.thread = None

    def submit(self, fn, *args, **kwargs):
        import threading
        from concurrent.futures import Future
        f = Future()
        with self.lock:
            self.pending.append((f, fn, args, kwargs))
            if self.thread is None or not self.thread.is_alive():
                self.thread = threading.Thread(target=self._drain, daemon=True)
                self.thread.start()
        return f

    def _drain(self):
        import time
        while True:
            time.sleep(0.03)        # let the caller finish submitting its batch
            with self.lock:
                pend, self.pending = self.pending, []
            if not pend:
                return
            for f, fn, a, k in (reversed(pend) if self.lifo else pend):
                try:
                    f.set_result(fn(*a, **k))
                except BaseException as e:      # noqa
                    f.set_exception(e)


def digest(x):
    return hashlib.sha1(repr(x).encode()).hexdigest()[:16]


def canon_tree(tree):
    return (tuple(map(tuple, tree.get_path())), tuple(tree.sliced_inds))


def make_net(kind):
    """fixed contractions with string labels (so that string-hash randomisation matters)"""
    if kind == "ring8":
        n = 8
        inputs = [(f"b{i}", f"b{(i + 1) % n}", f"p{i}") for i in range(n)]
        extra = {f"p{i}": 2 for i in range(n)}
        size = {f"b{i}": 2 + (i % 2) for i in range(n)}
        size.update(extra)
        return tuple(inputs), tuple(f"p{i}" for i in (0, 3, 1, 2, 4, 5, 6, 7)), size
    if kind == "grid9":
        inputs = [[] for _ in range(9)]
        size = {}
        k = 0
        for i in range(9):
            if i % 3 < 2:
                ix = f"h{k}"
                k += 1
                inputs[i].append(ix)
                inputs[i + 1].append(ix)
                size[ix] = 2
            if i < 6:
                ix = f"v{k}"
                k += 1
                inputs[i].append(ix)
                inputs[i + 3].append(ix)
                size[ix] = 3
        return tuple(map(tuple, inputs)), (), size
    if kind == "hyper12":
        rng = random.Random(7)
        inputs = [[] for _ in range(12)]
        size = {}
        for k in range(18):
            ix = f"e{k}"
            size[ix] = rng.choice([2, 3])
            for t in rng.sample(range(12), rng.choice([2, 2, 3])):
                inputs[t].append(ix)
        inputs = [t or [f"lonely{j}"] for j, t in enumerate(inputs)]
        for t in inputs:
            for ix in t:
                size.setdefault(ix, 2)
        return tuple(map(tuple, inputs)), ("e0",), size
    raise ValueError(kind)


def start_tree(ct, net):
    inputs, output, size = net
    return ct.array_contract_tree(inputs, output, size, optimize="greedy", canonicalize=False)


def run_call(ct, call):
    api, netk, seed = call["api"], call.get("net"), call["seed"]
    kw = call.get("kw", {})
    from cotengra import utils
    from cotengra.pathfinders import path_basic, path_labels, path_kahypar, path_random
    if api.startswith("gen:"):
        name = api[4:]
        eqgens = {
            # (every kind of index the generator can make: plain, output, inner hyper, outer hyper)
            "rand_equation": lambda: utils.rand_equation(7, 3, n_out=1, n_hyper_in=1, n_hyper_out=1, d_min=2, d_max=4, seed=seed),
            "tree_equation": lambda: utils.tree_equation(7, d_min=2, d_max=4, n_outer=2, seed=seed),
            "randreg_equation": lambda: utils.randreg_equation(8, 3, d_min=2, d_max=4, seed=seed),
            "perverse_equation": lambda: utils.perverse_equation(6, num_indices=4, min_rank=1, max_rank=4, d_min=2, d_max=4, n_outer=1, seed=seed),
            "lattice_equation": lambda: utils.lattice_equation([2, 3], cyclic=True, d_min=2, d_max=4, seed=seed),
        }
        if name in eqgens:
            def frozen(r):
                return (tuple(map(tuple, r[0])), tuple(r[1]), tuple(sorted(r[3].items())))
            r = eqgens[name]()
            first = frozen(r)
            if kw.get("repeat"):
                # the caller edits what it was given (in place), then asks again with the same arguments and seed
                try:
                    if r[0]:
                        r[0][0].append("zz") if isinstance(r[0][0], list) else None
                    r[1].append("zz") if isinstance(r[1], list) else None
                    r[3]["zz"] = 7
                except Exception:
                    pass
                return ("REPEAT", first, frozen(eqgens[name]()))
            return first
        if name == "make_rand_size_dict_from_inputs":
            return sorted(utils.make_rand_size_dict_from_inputs(make_net("ring8")[0], seed=seed).items())
        if name == "make_arrays_from_inputs":
            n = make_net("ring8")
            return [a.tobytes().hex()[:64] for a in utils.make_arrays_from_inputs(n[0], n[2], seed=seed)]
        if name == "rand_tree":
            return canon_tree(utils.rand_tree(7, 3, n_out=1, n_hyper_in=1, n_hyper_out=1, d_max=4, seed=seed))
    net = make_net(netk)
    inputs, output, size = net
    if api == "RandomGreedyOptimizer":
        if kw.get("pool") == "timed":
            # several batches on an in-process pool whose completion order depends on the environment
            return tuple(map(tuple, ct.RandomGreedyOptimizer(max_repeats=12, seed=seed, parallel=TimedExecutor(ENV["lifo"]))(
                inputs, output, size)))
        return tuple(map(tuple, ct.RandomGreedyOptimizer(max_repeats=4, seed=seed, parallel=False)(inputs, output, size)))
    if api == "optimize_random_greedy_track_flops":
        p, f = path_basic.optimize_random_greedy_track_flops(inputs, output, size, ntrials=3, seed=seed)
        return (tuple(map(tuple, p)), round(f, 9))
    if api == "RandomOptimizer":
        return tuple(map(tuple, path_random.RandomOptimizer(seed=seed)(inputs, output, size)))
    if api == "labels.build_divide":
        return canon_tree(path_labels.labels_to_tree.build_divide(inputs, output, size, seed=seed, cutoff=3, random_strength=0.3))
    if api == "labels.build_agglom":
        return canon_tree(path_labels.labels_to_tree.build_agglom(inputs, output, size, seed=seed, groupsize=2))
    if api == "kahypar.build_divide":
        return canon_tree(path_kahypar.kahypar_to_tree.build_divide(inputs, output, size, seed=seed, cutoff=3, random_strength=0.3))
    if api == "kahypar.build_agglom":
        return canon_tree(path_kahypar.kahypar_to_tree.build_agglom(inputs, output, size, seed=seed, groupsize=3))
    tree = start_tree(ct, net)
    kw = dict(kw)
    if api.startswith("compressed.") or api == "windowed_reconfigure":
        # the refinement methods of COMPRESSED trees (their own annealer / windowed optimizer), and the windowed
        # reconfiguration of an exact tree; the step order is part of a compressed tree
        from cotengra.scoring import CompressedPeakObjective
        mz = CompressedPeakObjective(4)
        ctree = ct.ContractionTreeCompressed.from_path(inputs, output, size, ssa_path=tree.get_ssa_path(), objective=mz)

        def ordered(t):
            return tuple(tuple(sorted(p)) for p in t.get_ssa_path())
        if api == "compressed.simulated_anneal":
            return ordered(ctree.simulated_anneal(mz, tsteps=3, numiter=8, tstart=1.0, seed=seed))
        if api == "compressed.simulated_anneal_default_objective":
            return ordered(ctree.simulated_anneal(tsteps=3, numiter=8, tstart=1.0, seed=seed))
        if api == "compressed.windowed_reconfigure":
            return ordered(ctree.windowed_reconfigure(mz, window_size=4, max_iterations=6, queue_temperature=1.0, seed=seed))
        if api == "windowed_reconfigure":
            return ordered(tree.windowed_reconfigure("flops", window_size=4, max_iterations=6, queue_temperature=1.0, seed=seed))
        raise ValueError(api)
    if kw.pop("warm", False):
        # the tree object has a past: it was reconfigured before (its cache of optimized subtrees is not empty), queried
        # and copied; the seeded call below is then made TWICE on this same object (see main)
        tree.subtree_reconfigure_(subtree_size=3, maxiter=4, seed=11)
        tree.contract_stats()
        tree.copy().subtree_reconfigure_(subtree_size=4, maxiter=2, seed=5)
    if kw.pop("presliced", False):
        # start from an already sliced tree so that un-slicing branches of the annealers run
        for ix in sorted(size)[:3]:
            tree.remove_ind_(ix)
    repeat = kw.pop("repeat", False)
    par = LazyExecutor(ENV["lifo"]) if kw.pop("pool", None) == "lazy" else False

    def do():
        kw_ = dict(kw)
        if kw_.get("target_size") == "current":
            kw_["target_size"] = tree.max_size()
        if api == "tree.slice":
            return canon_tree(tree.slice(target_size=max(1, tree.max_size() // 4), seed=seed, temperature=0.5, **kw_))
        if api == "SliceFinder":
            from cotengra.slicer import SliceFinder
            ix, cost = SliceFinder(tree, target_slices=4, temperature=0.5, seed=seed).search(4)
            return (tuple(sorted(ix)), cost.size, cost.flops)
        if api == "unslice_rand":
            for ix in sorted(size)[:3]:
                tree.remove_ind_(ix)
            return canon_tree(tree.unslice_rand(seed=seed))
        if api == "subtree_reconfigure":
            return canon_tree(tree.subtree_reconfigure(subtree_size=4, maxiter=6, seed=seed, **kw_))
        if api == "subtree_reconfigure_forest":
            return canon_tree(tree.subtree_reconfigure_forest(num_trees=2, num_restarts=2, subtree_maxiter=4, subtree_size=4,
                                                              parallel=par, seed=seed))
        if api == "simulated_anneal":
            return canon_tree(tree.simulated_anneal(tsteps=3, numiter=6, tstart=5, seed=seed, **kw_))
        if api == "parallel_temper":
            return canon_tree(tree.parallel_temper(tsteps=2, numiter=4, num_trees=3, parallel=par, seed=seed, **kw_))
        if api == "get_subtree":
            sub = tree.get_subtree(tree.root, 4, search="random", seed=seed)
            return tuple(tuple(sorted(map(tuple, map(sorted, part)))) for part in sub)
        raise ValueError(api)

    if repeat:
        # the same seeded call, twice, on the same object: both results are observations of the same call key
        return ("REPEAT", do(), do())
    return do()



def main():
    env = json.loads(sys.argv[1])
    ENV["lifo"] = bool(env.get("order", 0) % 2 == 0)
    calls = json.load(sys.stdin)
    import numpy as np
    import cotengra as ct
    out = []
    pr = random.Random(env["perturb"])
    order = list(range(len(calls)))
    random.Random(env["order"]).shuffle(order)
    for i in order:
        # deliberately disturb the global generators between calls
        random.seed(pr.randrange(10**9))
        for _ in range(pr.randrange(5)):
            random.random()
        np.random.seed(pr.randrange(2**31))
        try:
            res = run_call(ct, calls[i])
            if isinstance(res, tuple) and len(res) == 3 and res[0] == "REPEAT":
                r = digest(res[1]) + "|" + digest(res[2])
            else:
                r = digest(res)
        except Exception as e:
            r = "raised:" + type(e).__name__ + ":" + str(e)[:80]
        out.append((i, r))
    print("RESULT " + json.dumps(out))


if __name__ == "__main__":
    main()
