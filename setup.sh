#!/bin/sh
# offline setup: syntax-check every specification module with SANY
set -e
cd "$(dirname "$0")"
mkdir -p work evidence
fail=0
for f in spec/*.tla; do
  case "$f" in *Judge.tla|*Trace*.tla) continue;; esac   # judges EXTEND a generated Data module
  if ! java -DTLA-Library=spec -cp /opt/veriftools/tla/tla2tools.jar:/opt/veriftools/tla/CommunityModules-deps.jar tla2sany.SANY "$f" > work/sany.log 2>&1; then
    echo "SANY failed on $f"; tail -20 work/sany.log; fail=1
  fi
done
/venv/bin/python -c "import sys; sys.path.insert(0,'/repo'); import cotengra, numpy; print('cotengra', cotengra.__version__)"
exit $fail
