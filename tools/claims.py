# table consumed by tools/mkmanifest.py
HOOK_COMMITS = []
NOTES = ("Model-based verification with explicit TLA+ specifications (spec/). Exit codes of ./check: 0 held, "
         "1 VIOLATION, 2 machinery failure. See DESIGN.md.")

claim("C03", "model_checking",
      "Every figure a tree reports (per-node legs/involved/size/flops, totals, multiplicity, peak per traversal order, "
      "sliced inputs, preprocessing set, shapes actually produced) is recomputed by TLC from the definitions in "
      "spec/Network.tla + TreeDefs.tla for all trees of small networks x sliced/projected subsets x orders; "
      "design-level theorem (count rule <=> survival definition) model-checked exhaustively (MC_Network).",
      "TLC evaluates the spec definitions correctly; bounded networks (<= 6 tensors, <= 7 indices, dims <= 3); "
      "figures >= 2^31 skipped.",
      "TLA+ definitional spec; TLC judges snapshots recorded from the real tree (spec->code replay of all small trees)",
      "DESIGN.md §5 C03")

_PENDING = {
 "C01": "check under construction in this round", "C02": "check under construction in this round",
 "C04": "check under construction in this round", "C05": "check under construction in this round",
 "C06": "check under construction in this round", "C07": "check under construction in this round",
 "C08": "check under construction in this round", "C09": "check under construction in this round",
 "C10": "check under construction in this round", "C11": "check under construction in this round",
 "C12": "check under construction in this round", "C13": "check under construction in this round",
 "C14": "check under construction in this round", "C15": "check under construction in this round",
 "C16": "check under construction in this round", "C17": "check under construction in this round",
 "C18": "check under construction in this round", "C19": "check under construction in this round",
 "C20": "check under construction in this round",
}
for _p, _r in _PENDING.items():
    if _p not in CHECKS:
        NA[_p] = _r
