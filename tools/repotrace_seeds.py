import sys, time, subprocess, os
sys.path.insert(0,'/verif')
from harness import core
from harness.props import _repo
tier = sys.argv[1]
for sid in sys.argv[2:]:
    assert subprocess.run("git -C /repo status --porcelain", shell=True, capture_output=True, text=True).stdout.strip()==""
    subprocess.run(f"git -C /repo apply /verif/seeded/{sid}/patch.diff", shell=True, check=True)
    try:
        run = core.Run("C04",tier)
        run2 = core.Run("C02",tier)
        try:
            n=_repo.run_repo_traces(run,"figures","probe_"+sid)
            msg = f"{len(run.violations)} rejected of {n}" + (": "+run.violations[0][0][:200] if run.violations else "")
        except Exception as e:
            msg = "ERR "+str(e)[:300]
    finally:
        subprocess.run("git -C /repo checkout -- .", shell=True)
    print(sid, msg, flush=True)
