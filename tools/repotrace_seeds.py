#!/venv/bin/python
"""Which seeded changes does trace validation of the repository's OWN tests expose (the tests pass with every seed)?
usage: tools/repotrace_seeds.py quick|thorough <seed id> ...   (works in a scratch worktree, never in /repo)"""
import os, subprocess, sys
WT = "/tmp/wt_repotrace"
os.environ["VERIF_REPO"] = WT
sys.path.insert(0, "/verif")
if not os.path.isdir(WT):
    subprocess.run(f"git -C /repo worktree add --detach {WT} HEAD", shell=True, check=True, capture_output=True)
from harness import core            # noqa: E402
from harness.props import _repo     # noqa: E402
tier = sys.argv[1]
try:
    for sid in sys.argv[2:]:
        subprocess.run(f"git -C {WT} checkout -q --detach main && git -C {WT} checkout -- .", shell=True, check=True)
        subprocess.run(f"git -C {WT} apply /verif/seeded/{sid}/patch.diff", shell=True, check=True)
        run = core.Run("C04", tier)
        try:
            n = _repo.run_repo_traces(run, "figures", "probe_" + sid)
            msg = f"{len(run.violations)} rejected of {n}" + (": " + run.violations[0][0][:200] if run.violations else "")
        except Exception as e:
            msg = "ERR " + str(e)[:300]
        print(sid, msg, flush=True)
finally:
    subprocess.run(f"git -C /repo worktree remove --force {WT}", shell=True)
