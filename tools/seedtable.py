#!/usr/bin/env python3
"""Regenerates the table of §9 of DESIGN.md from seeded/*/meta.json."""
import glob, json, os, re
V = "/verif"
rows = []
for mp in sorted(glob.glob(f"{V}/seeded/*/meta.json")):
    m = json.load(open(mp))
    d = os.path.dirname(mp)
    notes = open(f"{d}/notes.md").read() if os.path.exists(f"{d}/notes.md") else ""
    site = ""
    mm = re.search(r"(cotengra/[\w/\.]+)", open(f"{d}/patch.diff").read())
    if mm:
        site = mm.group(1)
    tl = open(f"{d}/tests_full.txt").read().strip().splitlines() if os.path.exists(f"{d}/tests_full.txt") else []
    tests = tl[-1] if tl else "(subset run by the seeder)"
    caught = ", ".join(f"{c}: {'caught' if r['caught'] else ('MISSED' if r['exit'] == 0 else 'machinery')}" for c, r in m["checks"].items())
    first = next((r["first_violation"] for r in m["checks"].values() if r["caught"]), "")
    rows.append(f"| {m['id']} | {site} | {m.get('summary', '')} | {caught} | {first[:110].replace('|', '/')} | {tests[:60]} |")
table = "| id | site | what it breaks / needs | checks | first violation reported | repository tests with the change |\n|---|---|---|---|---|---|\n" + "\n".join(rows)
s = open(f"{V}/DESIGN.md").read()
if "SEEDED_TABLE" in s:
    s = s.replace("SEEDED_TABLE", "<!-- seeded-table-begin -->\n" + table + "\n<!-- seeded-table-end -->")
else:
    s = re.sub(r"<!-- seeded-table-begin -->.*<!-- seeded-table-end -->", "<!-- seeded-table-begin -->\n" + table.replace("\\", "\\\\") + "\n<!-- seeded-table-end -->", s, flags=re.S)
open(f"{V}/DESIGN.md", "w").write(s)
print(len(rows), "rows")
