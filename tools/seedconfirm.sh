#!/bin/sh
# tools/seedconfirm.sh <seed id>...: run the repository's test suite with the seeded change applied in a scratch worktree
for sid in "$@"; do
  D=/verif/seeded/$sid
  [ -s "$D/tests_full.txt" ] && continue
  W=/tmp/wt_confirm_$sid
  git -C /repo worktree add -q --detach "$W" HEAD || continue
  if git -C "$W" apply "$D/patch.diff"; then
    (cd "$W" && nice -n 10 timeout 3000 env -u COTENGRA_VERIF /venv/bin/python -m pytest -q -p no:cacheprovider --timeout=900 --deselect "tests/test_optimizers.py::test_hyper[False-chocolate-chocolate]" --deselect "tests/test_optimizers.py::test_hyper[True-chocolate-chocolate]" 2>&1 | grep -E "^FAILED|passed|failed|error" | tail -4) > "$D/tests_full.txt" 2>&1
  else
    echo "patch does not apply" > "$D/tests_full.txt"
  fi
  git -C /repo worktree remove --force "$W"
  echo "$sid: $(cat $D/tests_full.txt)"
done
