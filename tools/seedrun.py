#!/usr/bin/env python3
"""Import seeded changes from /tmp/seed_Cxx/mK into /verif/seeded/, confirm them (demo passes on the clean tree, fails
with the change) and run the listed checks against them.  Writes seeded/<id>/meta.json.
The change is applied in a scratch worktree (VERIF_REPO points the checks at it), never in /repo, so other runs are
not disturbed.
usage: tools/seedrun.py C04-m1[:C04,C02] ...   (default checks: the property's own check)"""
import json, os, shutil, subprocess, sys
V = "/verif"


def sh(cmd, timeout=2400, cwd=None, env=None):
    p = subprocess.run(cmd, shell=True, capture_output=True, text=True, timeout=timeout, cwd=cwd, env=env)
    return p.returncode, p.stdout + p.stderr


def main():
    for arg in sys.argv[1:]:
        sid, _, checks = arg.partition(":")
        pid, mk = sid.split("-")
        prop = pid[:3]
        checks = checks.split(",") if checks else [prop]
        src = f"/tmp/seed_{pid}/{mk}"
        dst = f"{V}/seeded/{sid}"
        if os.path.isdir(src) and not os.path.isdir(dst):
            shutil.copytree(src, dst)
        meta_p = f"{dst}/meta.json"
        meta = json.load(open(meta_p)) if os.path.exists(meta_p) else {"id": sid, "property": prop, "checks": {}}
        WT = f"/tmp/wt_seedrun_{os.getpid()}"
        sh(f"git -C /repo worktree remove --force {WT}")
        rc, out = sh(f"git -C /repo worktree add --detach {WT} HEAD")
        if rc != 0:
            print("cannot create worktree", out[:300]); sys.exit(2)
        env0 = dict(os.environ, PYTHONPATH="/repo")
        env = dict(os.environ, PYTHONPATH=WT, VERIF_REPO=WT)
        rc0, _ = sh(f"timeout 120 /venv/bin/python {dst}/demo.py", env=env0)
        rca, o = sh(f"git -C {WT} apply {dst}/patch.diff")
        if rca != 0:
            print(sid, "patch does not apply", o[:300]); sh(f"git -C /repo worktree remove --force {WT}"); continue
        try:
            rc1, _ = sh(f"timeout 120 /venv/bin/python {dst}/demo.py", env=env)
            meta["demo_clean_exit"], meta["demo_changed_exit"] = rc0, rc1
            for c in checks:
                rcc, out = sh(f"timeout 2000 ./check {c} --tier quick", cwd=V, env=dict(os.environ, VERIF_REPO=WT, VERIF_EVIDENCE_DIR="/verif/work/seeded_evidence"))
                lines = [l for l in out.splitlines() if l.startswith(("VIOLATION", "OK ", "MACHINERY", "  "))]
                first = next((l.strip() for l in out.splitlines() if l.startswith("  ") and "more violations" not in l), "")
                meta["checks"][c] = {"exit": rcc, "caught": rcc == 1, "first_violation": first[:400]}
                print(f"{sid} demo clean={rc0} changed={rc1} | {c}: exit {rcc} {'CAUGHT' if rcc == 1 else 'MISSED' if rcc == 0 else 'MACHINERY'} {first[:160]}")
        finally:
            sh(f"git -C /repo worktree remove --force {WT}")
        notes = open(f"{dst}/notes.md").read() if os.path.exists(f"{dst}/notes.md") else ""
        meta.setdefault("what_it_needs", "see notes.md")
        meta["ran"] = [f"./check {c} --tier quick" for c in checks]
        json.dump(meta, open(meta_p, "w"), indent=1)


main()
