#!/bin/sh
# tools/seedtest.sh <seed dir> [check ids...]  -- apply a seeded change to /repo, confirm its demo, run checks, undo.
# usage: tools/seedtest.sh seeded/C04-m1 C04 C02
set -u
D="$1"; shift
cd /repo || exit 2
if [ -n "$(git status --porcelain)" ]; then echo "/repo not clean"; exit 2; fi
echo "== demo on clean tree"; PYTHONPATH=/repo timeout 120 /venv/bin/python "/verif/$D/demo.py" >/dev/null 2>&1; echo "exit $?"
git apply "/verif/$D/patch.diff" || { echo "patch does not apply"; exit 2; }
echo "== demo with change"; PYTHONPATH=/repo timeout 120 /venv/bin/python "/verif/$D/demo.py" >/dev/null 2>&1; echo "exit $?"
cd /verif
for c in "$@"; do
  echo "== check $c (quick)"; timeout 1500 ./check "$c" --tier quick 2>&1 | grep -E "^OK|^VIOLATION|^MACHINERY|^  " | head -4 | cut -c1-300
done
git -C /repo checkout -- .
