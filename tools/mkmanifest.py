#!/usr/bin/env python3
"""Regenerates /verif/MANIFEST.json from the table below (single source of truth)."""
import json, os
HERE = os.path.dirname(os.path.dirname(os.path.abspath(__file__)))

CHECKS = {}   # pid -> dict(category, text, note, technique, design)
NA = {}       # pid -> reason


def claim(pid, category, text, note, technique, design):
    CHECKS[pid] = dict(category=category, text=text, note=note, technique=technique, design=design)


exec(open(os.path.join(HERE, "tools", "claims.py")).read())

man = {
    "version": 1,
    "setup_cmd": "./setup.sh",
    "hooks": {
        "guard": "COTENGRA_VERIF",
        "enable": "export COTENGRA_VERIF=1 (set by ./check); pure Python, nothing to rebuild: checks import cotengra from /repo's working tree",
        "baseline_off_cmd": "cd /repo && env -u COTENGRA_VERIF /venv/bin/python -m pytest -ra -q -p no:cacheprovider --timeout=900 --continue-on-collection-errors",
        "source_commits": HOOK_COMMITS,
        "add_only": True,
    },
    "engines": [
        {"name": "tlc-judge", "path": "/verif/check", "serves_properties": sorted(CHECKS),
         "kind_free_text": "explicit TLA+ specification (spec/*.tla) checked with TLC; bound to the implementation by replaying TLC-enumerated behaviours into the real code and by validating traces recorded from the real code against the specification (TLC is the judge, in batch)"},
    ],
    "checks": [],
    "notes": NOTES,
    "not_applicable": [{"property_id": p, "reason": r} for p, r in sorted(NA.items())],
}
for pid in sorted(CHECKS):
    c = CHECKS[pid]
    man["checks"].append({
        "property_id": pid,
        "quick_cmd": f"./check {pid} --tier quick",
        "thorough_cmd": f"./check {pid} --tier thorough",
        "evidence_file": f"/verif/evidence/{pid}.json",
        "replay_cmd_template": f"./check {pid} --replay {{path}}",
        "engine": "tlc-judge",
        "level_claimed": {"category": c["category"], "text": c["text"], "design_ref": c["design"]},
        "level_note": c["note"],
        "technique": c["technique"],
    })
with open(os.path.join(HERE, "MANIFEST.json"), "w") as f:
    json.dump(man, f, indent=1)
print("wrote MANIFEST.json:", len(man["checks"]), "checks,", len(man["not_applicable"]), "not applicable")
