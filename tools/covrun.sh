#!/bin/sh
# tools/covrun.sh [ids...]: line coverage of /repo/cotengra under the quick checks (diagnostic; finds API surface the drivers do not reach)
cd /verif
OUT=${COV_OUT:-/tmp/verif_cov}
mkdir -p $OUT
export PYTHONHASHSEED=0 COTENGRA_VERIF=1
for p in "$@"; do
  COVERAGE_FILE=$OUT/.coverage.$p /venv/bin/python -m coverage run --source=/repo/cotengra -m harness.main $p --tier quick 2>&1 | grep -E "^OK|^VIOLATION|^MACHINERY" | head -2
done
cd $OUT && /venv/bin/python -m coverage combine -q --keep .coverage.C* 2>/dev/null
/venv/bin/python -m coverage report --data-file=$OUT/.coverage -m > $OUT/report.txt 2>&1
tail -3 $OUT/report.txt
