SPECIFICATION Spec
CONSTANTS
  Desc <- DescDef
  Hash <- HashColl
  Obj <- ObjDef
  Val <- ValDef
  KeyIsHash = TRUE
  CacheObjects = FALSE
INVARIANT InvisibleState
PROPERTY ObjFresh
CHECK_DEADLOCK FALSE
