SPECIFICATION Spec
CONSTANTS
  MaxRepeats = 5
  PreDispatch = 3
  Scores <- ScoresDef
  Inf = 99
  MaxFail = 2
  MaxHist = FALSE
  JIT = FALSE
INVARIANT NoMoreThanRequested
INVARIANT ReportedOnce
INVARIANT BestIsMin
INVARIANT FailuresIsolated
INVARIANT AllReported
PROPERTY Progress
CHECK_DEADLOCK FALSE
