--------------------------- MODULE SnapshotClauses ---------------------------
(***************************************************************************)
(* Clause-by-clause comparison of one recorded tree snapshot with the      *)
(* definitions of TreeDefs.  A snapshot record is                          *)
(*   [net, ch (seq of <<p,l,r>>), sliced (seq of [ind, project]),          *)
(*    nodes (seq of [n, legs, involved, size, flops]),                     *)
(*    leafs (seq of [t, legs, size]),                                      *)
(*    stats [flops, write, size], mult, sliced_inputs, pre,                *)
(*    peaks (seq of [seq, peak]), combo [factor, value, limit], exec (seq of      *)
(*    [n, lsize, rsize, psize]), preexec (seq of [t, size]),               *)
(*    view [inputs, output, shapes, nslices] (what one slice looks like:   *)
(*    get_inputs_sliced / get_output_sliced / get_shapes_sliced / nslices)]*)
(* every figure is what the implementation reported; Clause names the      *)
(* first one that disagrees with the definition, or "ok".                  *)
(***************************************************************************)
EXTENDS TreeDefs

ChOf(c) == [p \in {c.ch[k][1] : k \in DOMAIN c.ch} |->
               LET k == CHOOSE k \in DOMAIN c.ch : c.ch[k][1] = p
               IN  <<c.ch[k][2], c.ch[k][3]>>]

NodeClause(c, ch, Sl, k) ==
    LET nd == c.nodes[k] IN
    IF nd.n \notin DOMAIN ch THEN "node-not-in-tree"
    ELSE IF nd.legs # Legs(c.net, nd.n, Sl) THEN "legs"
    ELSE IF nd.involved # NodeInvolved(c.net, ch, Sl, nd.n) THEN "involved"
    ELSE IF nd.size # Size(c.net, nd.n, Sl) THEN "size"
    ELSE IF nd.flops # NodeFlops(c.net, ch, Sl, nd.n) THEN "flops"
    ELSE "ok"

LeafClause(c, Sl, k) ==
    LET lf == c.leafs[k] IN
    IF lf.legs # Legs(c.net, {lf.t}, Sl) THEN "leaf-legs"
    ELSE IF lf.size # Size(c.net, {lf.t}, Sl) THEN "leaf-size"
    ELSE "ok"

FirstBad(S, F(_)) ==   \* first non-"ok" clause over 1..n, else "ok"
    IF \A k \in S : F(k) = "ok" THEN "ok"
    ELSE F(CHOOSE k \in S : F(k) # "ok" /\ \A j \in S : j < k => F(j) = "ok")

PeakClause(c, ch, k) ==
    LET pk == c.peaks[k] IN
    IF ~LegalOrder(ch, pk.seq) THEN "order-illegal"
    ELSE IF pk.peak # Peak(c.net, ch, c.sliced, pk.seq) THEN "peak"
    ELSE "ok"

ExecClause(c, ch, Sl, k) ==
    LET e == c.exec[k] IN
    IF e.n \notin DOMAIN ch THEN "exec-node"
    ELSE IF e.psize # Size(c.net, e.n, Sl) THEN "exec-size"
    ELSE IF e.lsize # Size(c.net, ch[e.n][1], Sl) THEN "exec-lsize"
    ELSE IF e.rsize # Size(c.net, ch[e.n][2], Sl) THEN "exec-rsize"
    ELSE "ok"

Clause(c) ==
    LET ch == ChOf(c)
        Sl == SlSet(c.sliced)
    IN
    IF ~Complete(c.net, ch) THEN "complete"
    ELSE IF Cardinality({c.nodes[k].n : k \in DOMAIN c.nodes}) # Cardinality(DOMAIN ch)
        THEN "nodes-missing"
    ELSE LET nc == FirstBad(DOMAIN c.nodes, LAMBDA k : NodeClause(c, ch, Sl, k)) IN
    IF nc # "ok" THEN nc
    ELSE LET lc == FirstBad(DOMAIN c.leafs, LAMBDA k : LeafClause(c, Sl, k)) IN
    IF lc # "ok" THEN lc
    ELSE IF c.mult # Mult(c.net, c.sliced) THEN "multiplicity"
    ELSE IF c.stats.flops # TotFlops(c.net, ch, c.sliced) THEN "total-flops"
    ELSE IF c.stats.write # TotWrite(c.net, ch, c.sliced) THEN "total-write"
    ELSE IF c.stats.size # MaxSize(c.net, ch, c.sliced) THEN "max-size"
    ELSE IF c.combo.value # Combo(c.net, ch, c.sliced, c.combo.factor) THEN "combo"
    ELSE IF c.combo.limit # Limit(c.net, ch, c.sliced, c.combo.factor) THEN "limit"
    ELSE IF c.sliced_inputs # SlicedInputs(c.net, c.sliced) THEN "sliced-inputs"
    ELSE IF c.pre # PreLeaves(c.net, c.sliced) THEN "preprocessing"
    ELSE IF c.view.inputs # [t \in DOMAIN c.net.inputs |-> SelectSeq(c.net.inputs[t], LAMBDA ix : ix \notin Sl)]
        THEN "sliced-view-inputs"
    ELSE IF c.view.output # SelectSeq(c.net.output, LAMBDA ix : ix \notin Sl) THEN "sliced-view-output"
    ELSE IF c.view.shapes # [t \in DOMAIN c.net.inputs |->
                                LET u == SelectSeq(c.net.inputs[t], LAMBDA ix : ix \notin Sl) IN
                                [k \in DOMAIN u |-> c.net.dim[u[k]]]]
        THEN "sliced-view-shapes"
    ELSE IF c.view.nslices # Prod(c.net, {c.sliced[k].ind : k \in {j \in DOMAIN c.sliced : c.sliced[j].project = -1}})
        THEN "nslices"
    ELSE LET pc == FirstBad(DOMAIN c.peaks, LAMBDA k : PeakClause(c, ch, k)) IN
    IF pc # "ok" THEN pc
    ELSE LET ec == FirstBad(DOMAIN c.exec, LAMBDA k : ExecClause(c, ch, Sl, k)) IN
    IF ec # "ok" THEN ec
    ELSE IF ~LegalOrder(ch, [k \in DOMAIN c.exec |-> c.exec[k].n]) /\ c.exec # <<>> THEN "exec-order"
    ELSE IF {c.preexec[k].t : k \in DOMAIN c.preexec} # PreLeaves(c.net, c.sliced) /\ c.exec # <<>>
        THEN "exec-pre-set"
    ELSE IF \E k \in DOMAIN c.preexec : c.preexec[k].size # Size(c.net, {c.preexec[k].t}, Sl)
        THEN "exec-pre-size"
    ELSE "ok"

=============================================================================
