------------------------------ MODULE Compressed ------------------------------
(***************************************************************************)
(* The compressed-contraction estimator (property C20): cotengra's         *)
(* ContractionTree.compressed_contract_stats = HyperGraph.contract /       *)
(* compress + CompressedStatsTracker, as a machine folded over a bottom-up *)
(* sequence of tree nodes.                                                 *)
(*                                                                         *)
(* State: nd (live node -> set of edges; nodes are named by their leaf     *)
(* sets), sz (edge -> size), and the tracker's running figures.  Per step  *)
(* <<p, l, r>>: optionally compress the bonds of l and r (compress_late),  *)
(* contract them, otherwise compress the bonds of the result.  Compressing *)
(* a node merges every group of >= 2 non-output edges incident to exactly  *)
(* the same set of nodes into one edge whose size is capped at chi.        *)
(* The cost of the compression itself (QR estimates) is left out: the      *)
(* property speaks about flops only where nothing is truncated.            *)
(***************************************************************************)
EXTENDS Network, TreeDefs

NodesOf(nd, e)  == {n \in DOMAIN nd : e \in nd[n]}
SizeOf(nd, sz, n) == FoldSet(LAMBDA e, acc : acc * sz[e], 1, nd[n])
Min2(a, b) == IF a <= b THEN a ELSE b
Nbhd(nd, N) == {nn \in DOMAIN nd : \E n \in N : \E e \in nd[n] : e \in nd[nn]}
NbhdSize(nd, sz, N) == SumOver(Nbhd(nd, N), LAMBDA n : SizeOf(nd, sz, n))

InitNodes(net) == [n \in {{t} : t \in Leaves(net)} |-> OnT(net, CHOOSE t \in n : TRUE)]
InitSizes(net) == [e \in Ixs(net) |-> net.dim[e]]

(* merge parallel bonds of node n *)
CompressNode(net, nd, sz, chi, n) ==
    LET O      == SeqRange(net.output)
        cand   == nd[n] \ O
        groups == {{f \in cand : NodesOf(nd, f) = NodesOf(nd, e)} : e \in cand}
        big    == {G \in groups : Cardinality(G) > 1}
        keepOf(G) == CHOOSE e \in G : \A f \in G : e <= f
        gone   == UNION {G \ {keepOf(G)} : G \in big}
    IN  [nd |-> [m \in DOMAIN nd |-> nd[m] \ gone],
         sz |-> [e \in DOMAIN sz |->
                    IF \E G \in big : e = keepOf(G)
                    THEN Min2(FoldSet(LAMBDA f, acc : acc * sz[f], 1, CHOOSE G \in big : e = keepOf(G)), chi)
                    ELSE sz[e]]]

ContractNodes(net, nd, l, r) ==
    LET O    == SeqRange(net.output)
        rest == DOMAIN nd \ {l, r}
        keep == {e \in nd[l] \cup nd[r] : e \in O \/ \E m \in rest : e \in nd[m]}
    IN  [m \in rest \cup {l \cup r} |-> IF m = l \cup r THEN keep ELSE nd[m]]

(* the largest (multi)bond met at a compression point: groups of non-output edges of the region's nodes that are
   incident to exactly the same nodes.  If chi is at least this in the uncapped run, nothing is truncated and no
   compression is charged (hypergraph.neighborhood_compress_cost charges a group only when its size exceeds chi). *)
BondMax(net, nd, sz, N) ==
    LET O    == SeqRange(net.output)
        cand == (UNION {nd[n] : n \in N}) \ O
    IN  MaxSet({0} \cup {FoldSet(LAMBDA f, acc : acc * sz[f], 1, {f \in cand : NodesOf(nd, f) = NodesOf(nd, e)}) : e \in cand})

(* tracker record: total, maxsize, peak, write, flops (contraction flops only) *)
InitTracker(net) ==
    LET nd == InitNodes(net)  sz == InitSizes(net)
        tot == SumOver(DOMAIN nd, LAMBDA n : SizeOf(nd, sz, n))
    IN  [nd |-> nd, sz |-> sz, total |-> tot, peak |-> tot, write |-> tot, flops |-> 0, maxbond |-> 0,
         maxsize |-> MaxSet({SizeOf(nd, sz, n) : n \in DOMAIN nd})]

Step(net, s, chi, late, p, l, r) ==
    LET \* late: compress l then r first
        c1 == IF late THEN CompressNode(net, s.nd, s.sz, chi, l) ELSE [nd |-> s.nd, sz |-> s.sz]
        c2 == IF late THEN CompressNode(net, c1.nd, c1.sz, chi, r) ELSE c1
        d1 == IF late THEN NbhdSize(c2.nd, c2.sz, {l, r}) - NbhdSize(s.nd, s.sz, {l, r}) ELSE 0
        fl == FoldSet(LAMBDA e, acc : acc * c2.sz[e], 1, c2.nd[l] \cup c2.nd[r])
        nd3 == ContractNodes(net, c2.nd, l, r)
        csz == SizeOf(nd3, c2.sz, p)
        d2  == d1 - SizeOf(c2.nd, c2.sz, l) - SizeOf(c2.nd, c2.sz, r) + csz
        post == s.total + d2
        c4 == IF late THEN [nd |-> nd3, sz |-> c2.sz] ELSE CompressNode(net, nd3, c2.sz, chi, p)
        d3 == IF late THEN d2 ELSE d2 + NbhdSize(c4.nd, c4.sz, {p}) - NbhdSize(nd3, c2.sz, {p})
        mb == IF late THEN BondMax(net, s.nd, s.sz, {l, r}) ELSE BondMax(net, nd3, c2.sz, {p})
    IN  [nd |-> c4.nd, sz |-> c4.sz, total |-> s.total + d3, peak |-> Max2(s.peak, post), maxbond |-> Max2(s.maxbond, mb),
         write |-> s.write + csz, flops |-> s.flops + fl, maxsize |-> Max2(s.maxsize, csz)]

RECURSIVE Run(_, _, _, _, _, _, _)
Run(net, ch, s, chi, late, seq, k) ==
    IF k > Len(seq) THEN s
    ELSE Run(net, ch, Step(net, s, chi, late, seq[k], ch[seq[k]][1], ch[seq[k]][2]), chi, late, seq, k + 1)
Estimate(net, ch, chi, late, seq) == Run(net, ch, InitTracker(net), chi, late, seq, 1)

(* ordinary networks: no repeated index inside a tensor, nothing to pre-sum on a leaf *)
Ordinary(net) == \A t \in Leaves(net) : /\ \A ix \in OnT(net, t) : Occ(net, t, ix) = 1
                                        /\ OnT(net, t) = Legs(net, {t}, {})
Huge == 1000000

(* the statement of C20 at the design level, for one tree and one legal order *)
ExactWhenUncapped(net, ch, late, seq) ==
    LET e == Estimate(net, ch, Huge, late, seq)
        unsliced == <<>>
    IN  /\ e.flops = TotFlops(net, ch, unsliced)
        /\ e.maxsize = Max2(MaxSize(net, ch, unsliced), MaxSet({Size(net, {t}, {}) : t \in Leaves(net)}))
        /\ e.write = TotWrite(net, ch, unsliced) + SumOver(Leaves(net), LAMBDA t : Size(net, {t}, {}))
(* chi truncates nothing: at least every (multi)bond of the uncapped run *)
NothingTruncated(net, ch, chi, late, seq) == chi >= Estimate(net, ch, Huge, late, seq).maxbond
NeverExceedsUncapped(net, ch, chi, late, seq) ==
    LET e == Estimate(net, ch, chi, late, seq)  u == Estimate(net, ch, Huge, late, seq) IN
    e.maxsize <= u.maxsize /\ e.peak <= u.peak /\ e.write <= u.write
=============================================================================
