SPECIFICATION Spec
CONSTANTS
  MaxRepeats = 5
  PreDispatch = 3
  Scores <- ScoresDef
  Inf = 99
  MaxFail = 2
  MaxHist = FALSE
  StopRule = "equil"
  Amount = 1
  CheckFirst = TRUE
  JIT = FALSE
INVARIANT BestAtEnd
CHECK_DEADLOCK FALSE
