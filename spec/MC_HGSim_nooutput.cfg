SPECIFICATION Spec
CONSTANTS
  Nets <- NetsA
  MaxHist = 0
  ExplicitIds <- Ids
  KeepOutput = FALSE
INVARIANT DualOK
INVARIANT MemOK
INVARIANT LegsAgree
INVARIANT PredictOK
INVARIANT CounterOK
INVARIANT CapOK
PROPERTY OneNodeAtEnd
CHECK_DEADLOCK FALSE
