SPECIFICATION Spec
CONSTANTS
  Net <- N1
  Ch <- C1
  Forbidden <- F0
  TSize = 0
  TSlices = 6
  TOver <- No
INVARIANT NeverForbidden
INVARIANT StopsRight
INVARIANT OverheadKept
CHECK_DEADLOCK FALSE
