SPECIFICATION Spec
INVARIANT Reassemble
INVARIANT Bij
CHECK_DEADLOCK FALSE
