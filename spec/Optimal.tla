------------------------------- MODULE Optimal -------------------------------
(***************************************************************************)
(* What "optimal" means (property C09): the minimum of an objective over   *)
(* ALL binary contraction trees of a network (or over all trees without an *)
(* outer product), with step costs taken from the definitions in Network.  *)
(*                                                                         *)
(* Objectives over the steps (f = flops of the step, w = size of its       *)
(* result): "flops" sum f, "write" sum w, "size" max w, "max" max f,       *)
(* "combo" sum (f + k w), "limit" sum max(f, k w); k = <<num, den>>.       *)
(***************************************************************************)
EXTENDS Network

Max3(a, b, c) == IF a >= b /\ a >= c THEN a ELSE IF b >= c THEN b ELSE c
Combine(obj, k, a, b, f, w) ==
    CASE obj = "flops" -> a + b + f
      [] obj = "write" -> a + b + w
      [] obj = "size"  -> Max3(a, b, w)
      [] obj = "max"   -> Max3(a, b, f)
      \* the weight is the rational k[1] / k[2]; costs are carried multiplied by k[2] (same argmin, integers only)
      [] obj = "combo" -> a + b + k[2] * f + k[1] * w
      [] obj = "limit" -> a + b + (IF k[2] * f >= k[1] * w THEN k[2] * f ELSE k[1] * w)
StepCost(net, obj, k, a, b, A, B) ==
    Combine(obj, k, a, b, Flops(net, A, B, {}), Size(net, A \cup B, {}))
Shares(net, A, B) == Legs(net, A, {}) \cap Legs(net, B, {}) # {}

Infinity == 2000000000
MinSet(S) == CHOOSE m \in S : \A x \in S : m <= x
LeastOf(S) == CHOOSE a \in S : \A b \in S : a <= b

(* minimum over all binary trees below the leaf set S, by structural recursion over the
   root split; no memoisation: every tree is visited, this IS the exhaustive enumeration *)
RECURSIVE MinOver(_, _, _, _, _)
MinOver(net, S, obj, k, outer) ==
    IF Cardinality(S) = 1 THEN 0
    ELSE LET m == LeastOf(S)
             splits == {A \in SUBSET S : m \in A /\ A # S /\ (outer \/ Shares(net, A, S \ A))}
             vals == {LET a == MinOver(net, A, obj, k, outer)
                          b == MinOver(net, S \ A, obj, k, outer)
                      IN  IF a = Infinity \/ b = Infinity THEN Infinity
                          ELSE StepCost(net, obj, k, a, b, A, S \ A) : A \in splits}
         IN IF vals = {} THEN Infinity ELSE MinSet(vals)

(* cost of one given tree (children function) *)
RECURSIVE CostOf(_, _, _, _, _)
CostOf(net, ch, p, obj, k) ==
    IF Cardinality(p) = 1 THEN 0
    ELSE StepCost(net, obj, k, CostOf(net, ch, ch[p][1], obj, k), CostOf(net, ch, ch[p][2], obj, k),
                  ch[p][1], ch[p][2])
OuterFree(net, ch) == \A p \in DOMAIN ch : Shares(net, ch[p][1], ch[p][2])

(* the networks the property quantifies over: nothing to pre-simplify *)
Simplified(net) ==
    /\ \A t \in Leaves(net) : net.inputs[t] # <<>> /\ \A ix \in OnT(net, t) : Occ(net, t, ix) = 1
    /\ \A ix \in Ixs(net) : InOut(net, ix) \/ Cardinality({t \in Leaves(net) : ix \in OnT(net, t)}) >= 2
    /\ \A a, b \in Leaves(net) : a # b => OnT(net, a) # OnT(net, b)
    /\ \A ix \in Ixs(net) : \E t \in Leaves(net) : ix \notin OnT(net, t)
=============================================================================
