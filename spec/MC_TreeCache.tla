---- MODULE MC_TreeCache ----
EXTENDS TreeCache
\* 4 tensors in a ring with a hyper index and an output index
NetDef == [inputs |-> << <<1, 2>>, <<2, 3, 5>>, <<3, 4>>, <<4, 1, 5>> >>, output |-> <<5>>, dim |-> <<2, 3, 2, 3, 2>>]
T1 == ({1, 2} :> <<{1}, {2}>>) @@ ({1, 2, 3} :> <<{1, 2}, {3}>>) @@ ({1, 2, 3, 4} :> <<{1, 2, 3}, {4}>>)
T2 == ({1, 2} :> <<{1}, {2}>>) @@ ({3, 4} :> <<{3}, {4}>>) @@ ({1, 2, 3, 4} :> <<{1, 2}, {3, 4}>>)
Trees2 == {T1, T2}
====
