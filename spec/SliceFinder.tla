----------------------------- MODULE SliceFinder -----------------------------
(***************************************************************************)
(* The slice search (property C07): cotengra.slicer.SliceFinder.           *)
(*                                                                         *)
(* CostOf(X) is the definitional cost of slicing the set X of indices on   *)
(* top of what the tree has already sliced: largest intermediate, flops of *)
(* ONE slice, number of additional slices.  A trial greedily adds indices  *)
(* that are not forbidden, caching the cost of every set it visits, and    *)
(* stops at one of three conditions; `Best` picks among the cached sets    *)
(* those that satisfy the requested targets.                               *)
(* Overhead targets are rationals <<num, den>>.                            *)
(***************************************************************************)
EXTENDS TreeDefs
CONSTANTS Net, Ch, Forbidden, TSize, TSlices, TOver   \* 0 / <<0, 0>> = target not specified
VARIABLES X, cache, stopped
vars == <<X, cache, stopped>>

CostOf(S) == CostOfN(Net, Ch, {}, S)
Flops0 == FlopsOne(Net, Ch, {})

SizeOK(c)  == TSize = 0 \/ c.size <= TSize
SliceOK(c) == TSlices = 0 \/ c.nslices >= TSlices
OverOK(c)  == OverOKN(c, Flops0, TOver)
TargetOK(c) == SizeOK(c) /\ SliceOK(c) /\ OverOK(c)

Satisfied(S) == \/ (TSize # 0 /\ CostOf(S).size <= TSize)
                \/ (TSlices # 0 /\ CostOf(S).nslices >= TSlices)
                \/ (TOver # <<0, 0>> /\ ~OverOK(CostOf(S)))

Init == X = {} /\ cache = {{}} /\ stopped = Satisfied({})
Step(ix) ==
    /\ ~stopped /\ ix \in Ixs(Net) \ (X \cup Forbidden)
    /\ cache' = cache \cup {X \cup {ix}}
    /\ IF TOver # <<0, 0>> /\ ~OverOK(CostOf(X \cup {ix}))
       THEN X' = X /\ stopped' = TRUE                       \* about to break the overhead limit: not accepted
       ELSE X' = X \cup {ix} /\ stopped' = Satisfied(X \cup {ix})
Next == \E ix \in Ixs(Net) : Step(ix)
Spec == Init /\ [][Next]_vars

NeverForbidden == X \cap Forbidden = {} /\ \A S \in cache : S \cap Forbidden = {}
(* whatever Best returns (a cached set passing the filter) honours the targets by construction of
   the filter; what must hold of the trial is that it only stops in a state whose accepted set
   satisfies a size / slices target when one of those stopped it *)
StopsRight == (stopped /\ TOver = <<0, 0>>) => (X = {} \/ Satisfied(X) \/ Ixs(Net) \ (X \cup Forbidden) = {})
(* the accepted set never breaks a requested overhead limit *)
OverheadKept == TOver # <<0, 0>> /\ X # {} => OverOK(CostOf(X))
=============================================================================
