SPECIFICATION Spec
CONSTANTS
  Desc <- DescDef
  Hash <- HashInj
  Obj <- ObjDef
  Val <- ValDef
  KeyIsHash = FALSE
  CacheObjects = TRUE
INVARIANT InvisibleState
PROPERTY ObjFresh
CHECK_DEADLOCK FALSE
