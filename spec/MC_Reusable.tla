---- MODULE MC_Reusable ----
EXTENDS Reusable
PoolDef == {1, 2, 3}
FpDef == (1 :> "x") @@ (2 :> "x") @@ (3 :> "y")     \* 1 and 2 share a fingerprint
ScoresDef == {1, 2, 3}
PoolGen == 1..7
FpGen == [c \in PoolGen |-> c]
ScoresOne == {1}
UM_none == {}
UM_all == {"no", "yes", "improved"}
====
