SPECIFICATION Spec
CONSTANTS
  Labels = {1, 2}
  MaxTerms = 2
  MaxEll = 1
INVARIANT Sane
INVARIANT Emit
CHECK_DEADLOCK FALSE
