---- MODULE MC_Determinism ----
EXTENDS Determinism
====
