------------------------------ MODULE Program ------------------------------
(***************************************************************************)
(* Label-level semantics of the pairwise program a contraction tree is     *)
(* compiled to (cotengra: extract_contractions -> Contractor.__call__).    *)
(*                                                                         *)
(* State: `axes`, a function from live temporaries (sets of leaf ids) to   *)
(* the sequence of index ids labelling their array axes.  Three step kinds *)
(*   Pre  : single-operand einsum on a leaf   (diagonals, sums, transpose) *)
(*   Tdot : tensordot(l, r, axes) followed by an optional transpose        *)
(*   Ein  : two-operand einsum with an explicit equation                   *)
(* Each step's guard is the side condition under which that array          *)
(* operation is an instance of distributivity (sum of products), so a      *)
(* program all of whose steps are enabled and which ends in `Done`         *)
(* computes Network!Einsum for ALL input arrays over any commutative       *)
(* semiring:                                                               *)
(*  - an index may be summed at a step only if it is dead outside the      *)
(*    operands: not an output index and on no live tensor other than the   *)
(*    operands (live tensors partition the leaves, so "on no leaf outside  *)
(*    the operands' leaf sets, unless already summed" - we use the         *)
(*    stronger, history-free form: on no leaf outside);                    *)
(*  - tensordot pairs axes carrying the same index, operands carry no      *)
(*    repeated index, and no index stays free on both operands;            *)
(*  - einsum letters correspond one-to-one to indices.                     *)
(* Letters of equations are shipped as integers (the harness tokenises).   *)
(***************************************************************************)
EXTENDS Network

NoRepeat(s)  == \A a, b \in DOMAIN s : a # b => s[a] # s[b]
SeqMinus(s, X) == SelectSeq(s, LAMBDA x : x \notin X)

(* index ix is not needed by anything outside the leaf set S *)
DeadOutside(net, S, ix) ==
    /\ ~InOut(net, ix)
    /\ \A t \in Leaves(net) \ S : ix \notin OnT(net, t)

InitAxes(net, Sl) == [n \in {{t} : t \in Leaves(net)} |->
                         SeqMinus(net.inputs[CHOOSE t \in n : TRUE], Sl)]

(* letters `lets` (sequence) pattern-match the axis sequence `ax`:        *)
(* same letter <=> same index                                              *)
Matches(lets, ax) ==
    /\ Len(lets) = Len(ax)
    /\ \A a, b \in DOMAIN lets : (lets[a] = lets[b]) <=> (ax[a] = ax[b])

IndexOfLetter(lets, ax, c) == ax[CHOOSE k \in DOMAIN lets : lets[k] = c]

(* ---- Pre -------------------------------------------------------------- *)
PreGuard(net, axes, n, lhs, rhs) ==
    IF n \notin DOMAIN axes \/ Cardinality(n) # 1 THEN "pre-not-a-live-leaf"
    ELSE IF ~Matches(lhs, axes[n]) THEN "pre-lhs-mismatch"
    ELSE IF ~NoRepeat(rhs) \/ ~(SeqRange(rhs) \subseteq SeqRange(lhs)) THEN "pre-rhs-malformed"
    ELSE IF \E k \in DOMAIN lhs : lhs[k] \notin SeqRange(rhs)
                                  /\ ~DeadOutside(net, n, axes[n][k]) THEN "pre-sums-live-index"
    ELSE "ok"
PreResult(axes, n, lhs, rhs) ==
    [axes EXCEPT ![n] = [k \in DOMAIN rhs |-> IndexOfLetter(lhs, axes[n], rhs[k])]]

(* ---- Tdot ------------------------------------------------------------- *)
FreeSeq(ax, used) == [k \in 1..(Len(ax) - Cardinality(used)) |->
                         ax[CHOOSE j \in DOMAIN ax \ used :
                               Cardinality({m \in DOMAIN ax \ used : m < j}) = k - 1]]
TdotGuard(net, axes, p, l, r, aL, aR, perm) ==
    IF l \notin DOMAIN axes \/ r \notin DOMAIN axes \/ l = r THEN "tdot-operand-not-live"
    ELSE IF p # l \cup r THEN "tdot-parent"
    ELSE IF Len(aL) # Len(aR) \/ ~NoRepeat(aL) \/ ~NoRepeat(aR)
            \/ ~(SeqRange(aL) \subseteq DOMAIN axes[l]) \/ ~(SeqRange(aR) \subseteq DOMAIN axes[r])
         THEN "tdot-axes-malformed"
    ELSE IF \E k \in DOMAIN aL : axes[l][aL[k]] # axes[r][aR[k]] THEN "tdot-pairs-different-indices"
    ELSE IF ~NoRepeat(axes[l]) \/ ~NoRepeat(axes[r]) THEN "tdot-repeated-index-on-operand"
    ELSE IF \E k \in DOMAIN aL : ~DeadOutside(net, p, axes[l][aL[k]]) THEN "tdot-sums-live-index"
    ELSE LET fl == FreeSeq(axes[l], SeqRange(aL))
             fr == FreeSeq(axes[r], SeqRange(aR))
         IN  IF SeqRange(fl) \cap SeqRange(fr) # {} THEN "tdot-shared-free-index"
             ELSE IF perm # <<>> /\ (Len(perm) # Len(fl) + Len(fr)
                                     \/ SeqRange(perm) # 1..(Len(fl) + Len(fr))) THEN "tdot-perm-malformed"
             ELSE "ok"
TdotResult(axes, p, l, r, aL, aR, perm) ==
    LET td == FreeSeq(axes[l], SeqRange(aL)) \o FreeSeq(axes[r], SeqRange(aR))
        res == IF perm = <<>> THEN td ELSE [k \in DOMAIN perm |-> td[perm[k]]]
    IN  [n \in (DOMAIN axes \ {l, r}) \cup {p} |-> IF n = p THEN res ELSE axes[n]]

(* ---- Ein -------------------------------------------------------------- *)
EinGuard(net, axes, p, l, r, L, R, O) ==
    IF l \notin DOMAIN axes \/ r \notin DOMAIN axes \/ l = r THEN "ein-operand-not-live"
    ELSE IF p # l \cup r THEN "ein-parent"
    ELSE IF ~Matches(L \o R, axes[l] \o axes[r]) \/ Len(L) # Len(axes[l]) THEN "ein-letters-mismatch"
    ELSE IF ~NoRepeat(O) \/ ~(SeqRange(O) \subseteq SeqRange(L \o R)) THEN "ein-output-malformed"
    ELSE IF \E k \in DOMAIN (L \o R) : (L \o R)[k] \notin SeqRange(O)
                /\ ~DeadOutside(net, p, (axes[l] \o axes[r])[k]) THEN "ein-sums-live-index"
    ELSE "ok"
EinResult(axes, p, l, r, L, R, O) ==
    LET res == [k \in DOMAIN O |-> IndexOfLetter(L \o R, axes[l] \o axes[r], O[k])]
    IN  [n \in (DOMAIN axes \ {l, r}) \cup {p} |-> IF n = p THEN res ELSE axes[n]]

(* ---- termination ------------------------------------------------------ *)
DoneClause(net, axes, Sl) ==
    IF DOMAIN axes # {Leaves(net)} THEN "done-not-single-result"
    ELSE IF axes[Leaves(net)] # SeqMinus(net.output, Sl) THEN "done-axes-not-declared-output"
    ELSE "ok"
=============================================================================
