SPECIFICATION Spec
CONSTANTS
  Labels = {1, 2, 3}
  MaxTerms = 2
  MaxEll = 2
INVARIANT Sane
INVARIANT Emit
CHECK_DEADLOCK FALSE
