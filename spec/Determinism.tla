----------------------------- MODULE Determinism -----------------------------
(***************************************************************************)
(* Seeded operations are functions of their arguments (property C17).      *)
(*                                                                         *)
(* A monitor: `memo` remembers, for every call key (operation, arguments,  *)
(* integer seed), the digest of the first result observed.  An observation *)
(* is accepted only if it agrees with the memo.  What is deliberately NOT  *)
(* part of the key - the environment: interpreter hash seed, state of the  *)
(* global random generators, the calls made before, the process - is what  *)
(* the result may not depend on.                                           *)
(***************************************************************************)
EXTENDS Naturals, Sequences, TLC
CONSTANTS Keys, Digests, Envs
VARIABLES memo, ok
Init == memo = <<>> /\ ok = TRUE
Observe(k, r, env) ==
    /\ ok
    /\ IF k \in DOMAIN memo
       THEN ok' = (memo[k] = r) /\ UNCHANGED memo
       ELSE memo' = [x \in DOMAIN memo \cup {k} |-> IF x = k THEN r ELSE memo[x]] /\ UNCHANGED ok
Next == \E k \in Keys : \E r \in Digests : \E env \in Envs : Observe(k, r, env)
Spec == Init /\ [][Next]_<<memo, ok>>
(* the relation observed so far is a function of the key alone *)
Functional == ok
=============================================================================
