------------------------------- MODULE HGSim -------------------------------
(***************************************************************************)
(* The hypergraph simulator as a state machine: any two live nodes may be  *)
(* contracted, under a generated or a caller-chosen id (also the id of a   *)
(* node just consumed); the object may be copied at any point (the copy    *)
(* goes on, the original must keep its state).  mem remembers which input  *)
(* tensors a node stands for - a history variable of the model only.       *)
(*                                                                         *)
(* Invariants (C18, design level): the locally maintained maps stay dual;  *)
(* every node carries exactly the indices the definition gives its leaf    *)
(* set (Network!Legs; a leaf keeps everything written on it); what the     *)
(* queries predict for a pair - indices, size, cost - is what the          *)
(* definition says of the merged set.                                      *)
(***************************************************************************)
EXTENDS HGSimDefs
CONSTANTS Nets, MaxHist, ExplicitIds, KeepOutput
VARIABLES net, st, mem, hist
vars == <<net, st, mem, hist>>

Log(e) == hist' = IF MaxHist > 0 /\ Len(hist) < MaxHist THEN Append(hist, e) ELSE hist
Bounded == MaxHist = 0 \/ Len(hist) < MaxHist

Init == /\ net \in Nets
        /\ st = HGInit(net)
        /\ mem = [t \in Leaves(net) |-> {t}]
        /\ hist = <<>>

Live == DOMAIN st.nd

Contract(i, j, given) ==
    /\ Bounded
    /\ i \in Live /\ j \in Live /\ i # j
    /\ given = 0 \/ given \notin (Live \ {i, j})
    /\ LET r == HGContractR(net, st, i, j, given, KeepOutput)
       IN  /\ st' = r.st
           /\ mem' = (r.id :> (mem[i] \cup mem[j])) @@ Restrict(mem, Live \ {i, j})
    /\ Log(<<"contract", i, j, given>>)
    /\ UNCHANGED net

Copy == /\ Bounded /\ MaxHist > 0 /\ Cardinality(Live) > 1
        /\ (IF Len(hist) = 0 THEN TRUE ELSE hist[Len(hist)][1] # "copy")
        /\ Log(<<"copy", 0, 0, 0>>)
        /\ UNCHANGED <<net, st, mem>>

Next == \/ \E i, j \in Live : \E g \in {0} \cup ExplicitIds : Contract(i, j, g)
        \/ Copy
Spec == Init /\ [][Next]_vars

DualOK    == st.ed = HGEdgesOf(st.nd)
MemOK     == /\ DOMAIN mem = Live
             /\ UNION {mem[k] : k \in Live} = Leaves(net)
             /\ \A a, b \in Live : a # b => mem[a] \cap mem[b] = {}
DefLegs(k) == IF Cardinality(mem[k]) = 1 THEN LeafLegsRaw(net, CHOOSE t \in mem[k] : TRUE, {})
              ELSE Legs(net, mem[k], {})
LegsAgree == \A k \in Live : st.nd[k] = DefLegs(k)
PredictOK == \A i, j \in Live : i # j =>
                 /\ HGPredict(net, st, {i, j}) = Legs(net, mem[i] \cup mem[j], {})
                 /\ HGCandidate(net, st, i, j, 0) = Size(net, mem[i] \cup mem[j], {})
                 /\ HGPairCost(net, st, i, j) = Prod(net, DefLegs(i) \cup DefLegs(j))
CounterOK == \A k \in Live : k <= st.ctr \/ k \in ExplicitIds
(* a cap at least as large as every group changes nothing; any cap only lowers the candidate size *)
CapOK     == \A i, j \in Live : i # j =>
                 /\ HGCandidate(net, st, i, j, 2) <= HGCandidate(net, st, i, j, 0)
                 /\ HGCandidate(net, st, i, j, HGCandidate(net, st, i, j, 0)) = HGCandidate(net, st, i, j, 0)
OneNodeAtEnd == [][Cardinality(DOMAIN st.nd') = Cardinality(DOMAIN st.nd) - 1 \/ UNCHANGED st]_vars
Done      == Cardinality(Live) = 1
EmitHist  == (MaxHist > 0 /\ (Done \/ Len(hist) = MaxHist)) => PrintT(<<"V", net.id, hist>>)
=============================================================================
