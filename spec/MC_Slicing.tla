----------------------------- MODULE MC_Slicing -----------------------------
(***************************************************************************)
(* Exhaustive check of the slice-numbering theorems: every canonical       *)
(* pattern of <= MaxSliced sliced indices over a network with indices of   *)
(* sizes 1..3, output or inner, sliced or projected to any value.          *)
(***************************************************************************)
EXTENDS Slicing
CONSTANT MaxSliced
VARIABLES net, sliced
\* 6 indices: 1,2,3 are output (sizes 1,2,3), 4,5,6 inner (sizes 3,2,1); the tensors are irrelevant
N0 == [inputs |-> << <<1, 2, 3, 4, 5, 6>>, <<4, 5, 6>> >>, output |-> <<2, 1, 3>>,
       dim |-> <<1, 2, 3, 3, 2, 1>>, rank |-> <<6, 2, 4, 1, 5, 3>>]
Init == net = N0 /\ sliced = <<>>
Add  == /\ Len(sliced) < MaxSliced
        /\ \E ix \in Ixs(net) \ SlSet(sliced) : \E v \in -1..(net.dim[ix] - 1) :
              sliced' = SlicedAfterRemoveN(net, sliced, ix, v)
        /\ UNCHANGED net
Next == Add
Spec == Init /\ [][Next]_<<net, sliced>>
Bij    == KeysBijective(net, sliced)
Tiles  == ChunksTile(net, sliced)
Canon  == IsCanonN(net, sliced)
Counts == NSlices(net, sliced) = Mult(net, sliced)
Ranks  == \A nproc \in 1..6 : RanksPartition(NSlices(net, sliced), nproc)
=============================================================================
