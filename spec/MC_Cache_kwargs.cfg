SPECIFICATION Spec
CONSTANTS
  Pool <- PoolDef
  Omit = "kwargs"
  MaxLen = 3
INVARIANT NoCrossTalk
CHECK_DEADLOCK FALSE
