----------------------------- MODULE BuildDefs -----------------------------
(***************************************************************************)
(* Partially built contraction trees (ContractionTree before it is        *)
(* complete): `nodes` is the set of nodes the tree knows (always the       *)
(* leaves and the root), `ch` the partial children function.  Shared by    *)
(* Build.tla (the machine) and BuildJudge.tla (trace validation).          *)
(***************************************************************************)
EXTENDS TreeDefs

LeafNodes(net) == {{t} : t \in Leaves(net)}
Laminar(Nd)    == \A a, b \in Nd : a \subseteq b \/ b \subseteq a \/ a \cap b = {}
HasParent(ch, n) == \E p \in DOMAIN ch : n = ch[p][1] \/ n = ch[p][2]

(* a well-formed partial tree *)
WFPartial(net, Nd, ch) ==
    /\ LeafNodes(net) \subseteq Nd /\ Leaves(net) \in Nd
    /\ \A n \in Nd : n # {} /\ n \subseteq Leaves(net)
    /\ Laminar(Nd)
    /\ DOMAIN ch \subseteq Nd
    /\ \A p \in DOMAIN ch : LET l == ch[p][1]  r == ch[p][2] IN
          /\ l \in Nd /\ r \in Nd /\ l # {} /\ r # {} /\ l \cap r = {} /\ l \cup r = p
    /\ Cardinality(Nd) <= 2 * Len(net.inputs) - 1
    /\ Cardinality(DOMAIN ch) <= Len(net.inputs) - 1

(* get_incomplete_nodes: nodes still to be given children / a parent *)
Childless(Nd, ch)       == {n \in Nd : Cardinality(n) > 1 /\ n \notin DOMAIN ch}
Parentless(net, Nd, ch) == {n \in Nd : n # Leaves(net) /\ ~HasParent(ch, n)}
(* the parentless nodes are grouped under the SMALLEST childless node containing them *)
AncestorOf(Nd, ch, n) ==
    LET sup == {c \in Childless(Nd, ch) : n \subseteq c} IN
    CHOOSE c \in sup : \A d \in sup : Cardinality(c) <= Cardinality(d)
GroupOf(net, Nd, ch, c) == {n \in Parentless(net, Nd, ch) : AncestorOf(Nd, ch, n) = c}
IsPartition(P, S) == /\ UNION P = S /\ \A a, b \in P : a # b => a \cap b = {}
                     /\ \A a \in P : a # {}

(* all partitions of a finite set S *)
RECURSIVE PartitionsOf(_)
PartitionsOf(S) ==
    IF S = {} THEN {{}}
    ELSE LET m == CHOOSE a \in S : \A b \in S : a <= b IN
         UNION {{{A} \cup P : P \in PartitionsOf(S \ A)} : A \in {A \in SUBSET S : m \in A}}

(* complete: nothing childless (for N >= 2 this is TreeDefs!Complete) *)
CompletePartial(Nd, ch) == Childless(Nd, ch) = {}

(* all full binary trees (children functions) over a set F of disjoint nodes *)
MinEl(x) == CHOOSE a \in x : \A b \in x : a <= b
RECURSIVE TreesOver(_)
TreesOver(F) ==
    IF Cardinality(F) = 1 THEN {<<>>}
    ELSE LET m == CHOOSE x \in F : \A y \in F : MinEl(x) <= MinEl(y)
         IN UNION {
              {ta @@ tb @@ ((UNION F) :> <<UNION A, UNION (F \ A)>>) :
                   ta \in TreesOver(A), tb \in TreesOver(F \ A)}
              : A \in {A \in SUBSET F : m \in A /\ A # F} }

(* below U the function ch is a full binary tree whose leaves are exactly the members of G *)
RECURSIVE Covered(_, _, _)
Covered(ch, U, G) ==
    \/ U \in G
    \/ /\ U \in DOMAIN ch
       /\ Covered(ch, ch[U][1], G) /\ Covered(ch, ch[U][2], G)

(* cotengra orders a pair: the larger subtree left; ties: the one with the smaller smallest leaf left *)
PairOrder(x, y) ==
    IF Cardinality(x) # Cardinality(y)
    THEN (IF Cardinality(x) > Cardinality(y) THEN <<x, y>> ELSE <<y, x>>)
    ELSE (IF MinEl(x) < MinEl(y) THEN <<x, y>> ELSE <<y, x>>)

(* the figures a tree that tracks them reports while it is being built (no slicing yet) *)
BuiltFlops(net, ch) == SumOver(DOMAIN ch, LAMBDA p : NodeFlops(net, ch, {}, p))
BuiltWrite(net, ch) == SumOver(DOMAIN ch, LAMBDA p : Size(net, p, {}))
BuiltMax(net, ch)   == IF DOMAIN ch = {} THEN -1 ELSE MaxSet({Size(net, p, {}) : p \in DOMAIN ch})
=============================================================================
