SPECIFICATION Spec
CONSTANTS
  Threads <- T3
  Queue <- Q3
  Cost <- CostDef
  Variant = "perthread"
  UseCache = TRUE
  Nest = FALSE
  StoreFirst = FALSE
  MaxHist = TRUE
INVARIANT EmitSchedule
CHECK_DEADLOCK FALSE
