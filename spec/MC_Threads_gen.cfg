SPECIFICATION Spec
CONSTANTS
  Threads <- T3
  Queue <- Q3
  Cost <- CostDef
  Variant = "perthread"
  UseCache = TRUE
  MaxHist = TRUE
INVARIANT EmitSchedule
CHECK_DEADLOCK FALSE
