SPECIFICATION Spec
CONSTANTS
  Pool <- PoolDef
  Omit = "output"
  MaxLen = 3
INVARIANT NoCrossTalk
CHECK_DEADLOCK FALSE
