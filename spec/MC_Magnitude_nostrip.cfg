SPECIFICATION Spec
CONSTANTS
  N = 5
  Bound = 100
  Slack = 2
  Strip = FALSE
INVARIANT InRange
INVARIANT OperandsBounded
CHECK_DEADLOCK FALSE
