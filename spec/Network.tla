------------------------------ MODULE Network ------------------------------
(***************************************************************************)
(* Definitional semantics of a tensor-network contraction ("einsum").      *)
(*                                                                         *)
(* A network is a record                                                   *)
(*    net = [inputs |-> Seq(Seq(Ix)), output |-> Seq(Ix), dim |-> Seq(Nat)]*)
(* Index ids are 1..Len(net.dim); tensor (leaf) ids are 1..Len(net.inputs).*)
(* A tree node is the set of leaf ids below it.  `Sl` is always the set of *)
(* sliced (or projected) indices.                                          *)
(*                                                                         *)
(* Nothing here is taken from cotengra: these are the definitions the      *)
(* property statements give (C03): an index survives a group of tensors    *)
(* iff it is not sliced, occurs inside the group and also occurs outside   *)
(* it or in the output; a pairwise step costs the product of the           *)
(* dimensions of all indices on either operand; a tensor's size is the     *)
(* product of the dimensions of its surviving indices.                     *)
(***************************************************************************)
EXTENDS Naturals, Integers, Sequences, FiniteSets, FiniteSetsExt, Functions, TLC

Leaves(net)      == 1..Len(net.inputs)
Ixs(net)         == 1..Len(net.dim)
SeqRange(s)      == {s[k] : k \in DOMAIN s}
OnT(net, t)      == SeqRange(net.inputs[t])
Occ(net, t, ix)  == Cardinality({k \in DOMAIN net.inputs[t] : net.inputs[t][k] = ix})
InOut(net, ix)   == \E k \in DOMAIN net.output : net.output[k] = ix
OnAny(net, S)    == UNION {OnT(net, t) : t \in S}

(* ---- survival, legs, sizes, flops ------------------------------------ *)
Survives(net, S, ix, Sl) ==
    /\ ix \notin Sl
    /\ \E t \in S : ix \in OnT(net, t)
    /\ (InOut(net, ix) \/ \E t \in Leaves(net) \ S : ix \in OnT(net, t))

Legs(net, S, Sl)        == {ix \in Ixs(net) : Survives(net, S, ix, Sl)}
LeafLegsRaw(net, t, Sl) == OnT(net, t) \ Sl     \* convention of the hypergraph / raw processor
Involved(net, l, r, Sl) == Legs(net, l, Sl) \cup Legs(net, r, Sl)
Prod(net, X)            == FoldSet(LAMBDA ix, acc : acc * net.dim[ix], 1, X)
Size(net, S, Sl)        == Prod(net, Legs(net, S, Sl))
Flops(net, l, r, Sl)    == Prod(net, Involved(net, l, r, Sl))

(* a leaf needs a single-tensor preprocessing step iff an index repeats on *)
(* it or an index is confined to it and is not an output index             *)
NeedsPre(net, t, Sl) ==
    \/ \E ix \in OnT(net, t) \ Sl : Occ(net, t, ix) > 1
    \/ (OnT(net, t) \ Sl) # Legs(net, {t}, Sl)

(* ---- the count rule the implementation uses -------------------------- *)
SumOver(S, f(_)) == FoldSet(LAMBDA x, acc : acc + f(x), 0, S)
Total(net, ix)  == (IF InOut(net, ix) THEN 1 ELSE 0)
                   + SumOver(Leaves(net), LAMBDA t : Occ(net, t, ix))
CountRule(net, S, ix) ==
    LET c == SumOver(S, LAMBDA t : Occ(net, t, ix)) IN c > 0 /\ c < Total(net, ix)

(* ---- exact value semantics on canonical integer tensors -------------- *)
(* entry of canonical tensor t at 0-based coordinates c (a sequence)       *)
Entry(t, c) ==
    LET s == FoldSet(LAMBDA k, acc : acc + (k + 1) * c[k], 0, DOMAIN c)
    IN  ((3 * t + s) % 7) - 3

(* all assignments of 0-based values to the indices in X                  *)
Assignments(net, X) ==
    FoldSet(LAMBDA ix, acc : {a @@ (ix :> v) : a \in acc, v \in 0..(net.dim[ix] - 1)},
            {<<>>}, X)

Term(net, t, a) == Entry(t, [k \in DOMAIN net.inputs[t] |-> a[net.inputs[t][k]]])
ProdTerms(net, a) == FoldSet(LAMBDA t, acc : acc * Term(net, t, a), 1, Leaves(net))

(* value of the contraction at output assignment `o` with the indices in  *)
(* DOMAIN fix held at fix[ix]; summed over every other index              *)
ValueAt(net, o, fix) ==
    LET bound == DOMAIN o \cup DOMAIN fix
        free  == {ix \in Ixs(net) : \E t \in Leaves(net) : ix \in OnT(net, t)} \ bound   \* indices on no tensor are ignored
    IN  FoldSet(LAMBDA a, acc : acc + ProdTerms(net, a @@ o @@ fix), 0,
                Assignments(net, free))

(* row-major enumeration of coordinate tuples of a sequence of indices    *)
RECURSIVE Coords(_, _)
Coords(net, ixseq) ==
    IF ixseq = <<>> THEN << <<>> >>
    ELSE LET rest == Coords(net, Tail(ixseq))
             d    == net.dim[Head(ixseq)]
         IN  [n \in 1..(d * Len(rest)) |->
                 <<(n - 1) \div Len(rest)>> \o rest[((n - 1) % Len(rest)) + 1]]

(* the einsum value, flattened row-major over the output indices that are *)
(* not fixed; fix = <<>> gives the full contraction                       *)
Einsum(net, fix) ==
    LET oseq == SelectSeq(net.output, LAMBDA ix : ix \notin DOMAIN fix)
        cs   == Coords(net, oseq)
    IN  [n \in DOMAIN cs |->
            ValueAt(net, [k \in SeqRange(oseq) |->
                             cs[n][CHOOSE j \in DOMAIN oseq : oseq[j] = k]], fix)]
=============================================================================
