SPECIFICATION Spec
CONSTANT MaxN = 5
INVARIANT EmitPath
CHECK_DEADLOCK FALSE
