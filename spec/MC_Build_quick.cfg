SPECIFICATION Spec
CONSTANTS
  Nets <- NetsA
  MaxHist = 0
  MaxGroup = 4
INVARIANT WF
INVARIANT TrackedOK
INVARIANT ChildlessOK
INVARIANT GroupsPartition
INVARIANT EveryParentlessGrouped
INVARIANT CompleteIff
PROPERTY OnlyGrows
CHECK_DEADLOCK FALSE
