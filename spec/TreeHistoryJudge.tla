-------------------------- MODULE TreeHistoryJudge --------------------------
(***************************************************************************)
(* Trace validation of histories of tree transformations (C02, C04).       *)
(*                                                                         *)
(* Data!Cases[c] = [net, init (snapshot), events]; an event is             *)
(*   [op, ix, v, mayslice, snap (snapshot of the tree after the operation),*)
(*    rebuild_equal, same_object]                                          *)
(* The judge keeps the abstract state <<children, sliced>> of spec/Tree.tla*)
(* and has one action per operation kind; each checks that the recorded    *)
(* post-state is a successor the Tree machine allows (using the successor  *)
(* operators shared with Tree.tla), then that every figure in the snapshot *)
(* equals its definition on that post-state (SnapshotClauses), then that   *)
(* the statement's own oracle held (rebuild_equal).  Verdict per trace:    *)
(*   <<"V", c, clause, pc, op>>  (pc = index of the failing event, 0 =init)*)
(***************************************************************************)
EXTENDS Data, SnapshotClauses
VARIABLES c, pc, ch, sliced

Case  == Cases[c]
Ev    == Case.events[pc]
Live  == c <= Len(Cases)
More  == Live /\ pc >= 1 /\ pc <= Len(Case.events)

Unordered(f) == {<<p, {f[p][1], f[p][2]}>> : p \in DOMAIN f}
SameTree(f, g) == Unordered(f) = Unordered(g)

Start(k) == /\ c' = k /\ pc' = 0 /\ ch' = <<>> /\ sliced' = <<>>
Verdict(cl, op) == PrintT(<<"V", c, cl, pc, op>>) /\ Start(c + 1)

Init == c = 1 /\ pc = 0 /\ ch = <<>> /\ sliced = <<>>

(* the initial tree: complete, unsliced, every figure right *)
Begin ==
    /\ Live /\ pc = 0
    /\ LET cl == Clause(Case.init) IN
       IF cl # "ok" THEN Verdict("init:" \o cl, "init")
       ELSE /\ ch' = ChOf(Case.init) /\ sliced' = Case.init.sliced
            /\ pc' = 1 /\ c' = c

(* transition clauses, one per operation kind of spec/Tree.tla *)
NewCh == ChOf(Ev.snap)
NewSl == Ev.snap.sliced
Structure(kind) ==
    CASE kind = "query" ->                      \* contract, stats, get_path, print, sort, reset, copy
            IF ~SameTree(NewCh, ch) THEN "children-changed"
            ELSE IF NewSl # sliced THEN "sliced-changed" ELSE "ok"
      [] kind = "reconfigure" ->                \* subtree_reconfigure(_forest), anneal/temper without slicing
            IF ~Complete(Case.net, NewCh) THEN "not-complete"
            ELSE IF NewSl # sliced THEN "sliced-changed" ELSE "ok"
      [] kind = "remove_ind" ->
            IF ~SameTree(NewCh, ch) THEN "children-changed"
            ELSE IF Ev.ix \in SlSet(sliced) THEN "already-sliced"
            ELSE IF NewSl # SlicedAfterRemoveN(Case.net, sliced, Ev.ix, Ev.v) THEN "sliced-wrong"
            ELSE "ok"
      [] kind = "restore_ind" ->
            IF ~SameTree(NewCh, ch) THEN "children-changed"
            ELSE IF NewSl # SlicedAfterRestore(sliced, Ev.ix) THEN "sliced-wrong" ELSE "ok"
      [] kind = "unslice_one" ->                \* unslice_rand: exactly one index restored
            IF ~SameTree(NewCh, ch) THEN "children-changed"
            ELSE IF ~\E ix \in SlSet(sliced) : NewSl = SlicedAfterRestore(sliced, ix) THEN "sliced-wrong"
            ELSE "ok"
      [] kind = "unslice_all" ->
            IF ~SameTree(NewCh, ch) THEN "children-changed"
            ELSE IF NewSl # <<>> THEN "sliced-wrong" ELSE "ok"
      [] kind = "slice" ->                      \* tree.slice: more indices sliced, tree untouched
            IF ~SameTree(NewCh, ch) THEN "children-changed"
            ELSE IF ~(SlSet(sliced) \subseteq SlSet(NewSl)) THEN "lost-sliced-index"
            ELSE IF \E k \in DOMAIN sliced : \E j \in DOMAIN NewSl :
                       sliced[k].ind = NewSl[j].ind /\ sliced[k].project # NewSl[j].project
                 THEN "projection-changed"
            ELSE IF \E j \in DOMAIN NewSl : NewSl[j].ind \notin SlSet(sliced) /\ NewSl[j].project # -1
                 THEN "new-index-projected"
            ELSE IF ~IsCanonN(Case.net, NewSl) THEN "not-canonical" ELSE "ok"
      [] kind = "slice_reconfigure" ->          \* slice_and_reconfigure(_forest), anneal with target_size
            IF ~Complete(Case.net, NewCh) THEN "not-complete"
            ELSE IF ~(SlSet(sliced) \subseteq SlSet(NewSl)) /\ ~Ev.mayslice THEN "lost-sliced-index"
            ELSE IF ~Ev.mayslice /\ \E k \in DOMAIN sliced : \E j \in DOMAIN NewSl :
                       sliced[k].ind = NewSl[j].ind /\ sliced[k].project # NewSl[j].project
                 THEN "projection-changed"
            ELSE IF ~IsCanonN(Case.net, NewSl) THEN "not-canonical" ELSE "ok"
      [] OTHER -> "unknown-operation-kind"

StepEvent ==
    /\ More
    /\ LET st == Structure(Ev.kind) IN
       IF st # "ok" THEN Verdict("transition:" \o st, Ev.op)
       ELSE LET cl == Clause(Ev.snap) IN
       IF cl # "ok" THEN Verdict("figure:" \o cl, Ev.op)
       ELSE IF ~Ev.rebuild_equal THEN Verdict("rebuild-differs", Ev.op)
       ELSE /\ ch' = NewCh /\ sliced' = NewSl /\ pc' = pc + 1 /\ c' = c

Finish == /\ Live /\ pc > Len(Case.events) /\ Verdict("ok", "end")

Next == Begin \/ StepEvent \/ Finish
=============================================================================
