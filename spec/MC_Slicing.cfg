SPECIFICATION Spec
CONSTANT MaxSliced = 4
INVARIANT Bij
INVARIANT Tiles
INVARIANT Canon
INVARIANT Counts
CHECK_DEADLOCK FALSE
