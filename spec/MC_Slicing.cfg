SPECIFICATION Spec
CONSTANT MaxSliced = 4
INVARIANT Bij
INVARIANT Tiles
INVARIANT Canon
INVARIANT Counts
INVARIANT Ranks
CHECK_DEADLOCK FALSE
