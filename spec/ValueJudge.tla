------------------------------ MODULE ValueJudge ------------------------------
(***************************************************************************)
(* Data!Cases[c] = [net, fix (function index -> value), value (flat,       *)
(* row-major)]: value must be Network!Einsum(net, fix) on the canonical    *)
(* integer tensors with entries Entry(t, coords).  Used to tie the harness *)
(* evaluator (and values it vouches for) to the specification.             *)
(***************************************************************************)
EXTENDS Data, Network
VARIABLE c
Init == c = 1
Next == c <= Len(Cases)
        /\ PrintT(<<"V", c, IF Einsum(Cases[c].net, Cases[c].fix) = Cases[c].value THEN "ok" ELSE "value">>)
        /\ c' = c + 1
=============================================================================
