------------------------------ MODULE Reusable ------------------------------
(***************************************************************************)
(* The reusable (caching) optimizer (property C14).                        *)
(*                                                                         *)
(* Contractions are drawn from a finite pool; `Fp[c]` is the fingerprint   *)
(* class of pool member c (fingerprints are modelled as canonical forms,   *)
(* i.e. SHA-1 is assumed injective on them; see CanonA / CanonB below).    *)
(* An entry records which query created it, in which run, and its score.   *)
(*                                                                         *)
(*  Query(c, s)  the policy of ReusableOptimizer._maybe_run_optimizer:     *)
(*               look in memory, then on disk; run the sub-optimizer iff   *)
(*               the entry is missing or overwrite is set; with            *)
(*               overwrite = "improved" keep the better of old and new;    *)
(*               cache_only never runs.  s is the score a run would get.   *)
(*  Update(c, s, mode)  update_from_tree: an answer with score s for c is  *)
(*               handed in from outside with its own overwrite mode        *)
(*  Restart      a fresh process: the in-memory cache is lost, the disk    *)
(*               (if there is one) stays.                                  *)
(***************************************************************************)
EXTENDS ReusableDefs
CONSTANTS Pool,        \* set of contraction ids
          Fp,          \* [Pool -> fingerprint class]
          Scores,      \* set of scores a run may produce
          Overwrite,   \* "no" | "yes" | "improved"
          CacheOnly,   \* BOOLEAN
          HasDisk,     \* BOOLEAN
          MaxQueries,
          UpdateModes  \* modes with which answers may be handed in from outside ({} = no updates)
VARIABLES mem, disk, runs, nq, last, qhist
vars == <<mem, disk, runs, nq, last, qhist>>


Init == mem = <<>> /\ disk = <<>> /\ runs = 0 /\ nq = 0 /\ qhist = <<>>
        /\ last = [c |-> 0, outcome |-> "none", entry |-> None, ran |-> FALSE]

Query(c, s) ==
    /\ nq < MaxQueries /\ nq' = nq + 1 /\ qhist' = Append(qhist, c)
    /\ LET p == Policy(mem, disk, runs, Fp[c], c, s, Overwrite, CacheOnly, HasDisk) IN
       /\ mem' = p.mem /\ disk' = p.disk /\ runs' = p.runs
       /\ last' = [c |-> c, outcome |-> p.outcome, entry |-> p.entry, ran |-> p.ran]

Update(c, s, mode) ==
    /\ nq < MaxQueries /\ nq' = nq + 1 /\ qhist' = Append(qhist, c)
    /\ LET p == UpdatePolicy(mem, disk, runs, Fp[c], c, s, mode, HasDisk) IN
       /\ mem' = p.mem /\ disk' = p.disk /\ runs' = p.runs
       /\ last' = [c |-> c, outcome |-> IF p.stored THEN "stored-" \o mode ELSE "kept-" \o mode, entry |-> p.entry, ran |-> FALSE]

Restart == /\ nq < MaxQueries /\ nq > 0 /\ qhist[Len(qhist)] # 0
           /\ mem' = <<>> /\ UNCHANGED <<disk, runs, nq>> /\ qhist' = Append(qhist, 0)
           /\ last' = [c |-> 0, outcome |-> "restart", entry |-> None, ran |-> FALSE]

Next == \/ \E c \in Pool : \E s \in Scores : Query(c, s)
        \/ \E c \in Pool : \E s \in Scores : \E mode \in UpdateModes : Update(c, s, mode)
        \/ Restart
Spec == Init /\ [][Next]_vars

(* ---- properties -------------------------------------------------------- *)
(* an answer was produced for a contraction with the same fingerprint as the query *)
AnswersQuery == last.outcome \in {"searched", "reconstructed"} => Fp[last.entry.creator] = Fp[last.c]
CacheOnlyNeverRuns == CacheOnly => runs = 0
(* repeating a query without overwrite does not search again *)
RepeatIsHit == [][\A c \in Pool : (Overwrite = "no" /\ last.c = c /\ last.outcome \in {"searched", "reconstructed"}
                                   /\ last'.c = c /\ nq' = nq + 1 /\ last'.outcome \in {"searched", "reconstructed", "KeyError"})
                                  => runs' = runs]_vars
(* with overwrite = "improved" the score stored for a fingerprint never gets worse *)
ImprovedMonotone == [][(Overwrite = "improved" /\ last'.outcome # "stored-yes") =>
                         \A h \in DOMAIN disk : h \in DOMAIN disk' /\ disk'[h].score <= disk[h].score]_vars
(* an answer handed in from outside respects ITS mode, whatever mode the optimizer was built with *)
UpdateRespectsMode ==
    [][/\ (last'.outcome \in {"stored-no", "kept-no"}) =>
             \A h \in DOMAIN disk : h \in DOMAIN disk' /\ disk'[h] = disk[h]
       /\ (last'.outcome \in {"stored-improved", "kept-improved"}) =>
             \A h \in DOMAIN disk : h \in DOMAIN disk' /\ disk'[h].score <= disk[h].score]_vars
MemCoherent == HasDisk => \A h \in DOMAIN mem : h \in DOMAIN disk /\ mem[h] = disk[h]
NoDiskNoFiles == ~HasDisk => disk = <<>>
(* query-sequence generation for replay on the real optimizer (0 = restart) *)
EmitSeq == nq = MaxQueries => PrintT(<<"V", qhist>>)

=============================================================================
