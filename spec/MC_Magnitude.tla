---- MODULE MC_Magnitude ----
EXTENDS Magnitude
====
