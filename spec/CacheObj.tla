------------------------------ MODULE CacheObj ------------------------------
(***************************************************************************)
(* Two further ways in which an in-memory cache stops being invisible      *)
(* (C13), beyond a key that omits a component (Cache.tla):                  *)
(*                                                                         *)
(*  - the key is the HASH of the description instead of the description:   *)
(*    two different descriptions with equal hashes share an entry          *)
(*    (cotengra before the F25 repair: integer labels -1 and -2);          *)
(*  - a MUTABLE object (an explicit ContractionTree or an optimizer        *)
(*    instance given as `optimize`) is cached by identity: after the       *)
(*    object is changed in place the entry answers for its old content.    *)
(*    cotengra caches only str / tuple / list values of `optimize`.        *)
(*                                                                         *)
(* A description means itself; an object means its current content.        *)
(***************************************************************************)
EXTENDS Naturals, TLC
CONSTANTS Desc,          \* literal (immutable) call descriptions
          Hash,          \* [Desc -> Nat]
          Obj, Val,      \* mutable objects and their possible contents
          KeyIsHash,     \* TRUE: entries are keyed by Hash[d]      (negative instance)
          CacheObjects   \* TRUE: objects are cached by identity    (negative instance)
VARIABLES content, cache, last
vars == <<content, cache, last>>

Put(f, k, v) == [x \in DOMAIN f \cup {k} |-> IF x = k THEN v ELSE f[x]]
Init == /\ content \in [Obj -> Val] /\ cache = <<>>
        /\ last = [kind |-> "none", arg |-> 0, answer |-> 0]

CallDesc(d) ==
    LET k == IF KeyIsHash THEN <<"h", Hash[d]>> ELSE <<"d", d>> IN
    /\ IF k \in DOMAIN cache
       THEN /\ last' = [kind |-> "desc", arg |-> d, answer |-> cache[k]] /\ UNCHANGED cache
       ELSE /\ cache' = Put(cache, k, d) /\ last' = [kind |-> "desc", arg |-> d, answer |-> d]
    /\ UNCHANGED content

CallObj(o) ==
    /\ IF CacheObjects
       THEN LET k == <<"o", o>> IN
            IF k \in DOMAIN cache
            THEN /\ last' = [kind |-> "obj", arg |-> o, answer |-> cache[k]] /\ UNCHANGED cache
            ELSE /\ cache' = Put(cache, k, content[o]) /\ last' = [kind |-> "obj", arg |-> o, answer |-> content[o]]
       ELSE /\ last' = [kind |-> "obj", arg |-> o, answer |-> content[o]] /\ UNCHANGED cache
    /\ UNCHANGED content

Mutate(o, v) == /\ content' = [content EXCEPT ![o] = v] /\ UNCHANGED <<cache, last>>

Next == (\E d \in Desc : CallDesc(d)) \/ (\E o \in Obj : CallObj(o)) \/ (\E o \in Obj, v \in Val : Mutate(o, v))
Spec == Init /\ [][Next]_vars

(* the answer of every call is what the same call would give without any cache *)
InvisibleState == (last.kind = "desc") => last.answer = last.arg
ObjFresh == [][(last'.kind = "obj" /\ UNCHANGED content /\ (last' # last \/ cache' # cache))
                 => last'.answer = content[last'.arg]]_vars
=============================================================================
