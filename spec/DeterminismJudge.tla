--------------------------- MODULE DeterminismJudge ---------------------------
(***************************************************************************)
(* Trace judge for C17: Data!Cases[c] = [key (call key id), obs (seq of     *)
(* [env, digest])]: all observations of one call key, merged from several  *)
(* processes.  Accepted iff the monitor of spec/Determinism.tla accepts    *)
(* the observations in any order, i.e. all digests are equal.              *)
(* Verdict <<"V", c, clause, position>>.                                   *)
(***************************************************************************)
EXTENDS Data, Naturals, Sequences
VARIABLE c
Clause(k) == IF \A n \in DOMAIN k.obs : k.obs[n].digest = k.obs[1].digest THEN <<"ok", 0>>
             ELSE <<"result-depends-on-environment",
                    CHOOSE n \in DOMAIN k.obs : k.obs[n].digest # k.obs[1].digest>>
Init == c = 1
Next == c <= Len(Cases) /\ LET v == Clause(Cases[c]) IN PrintT(<<"V", c, v[1], v[2]>>) /\ c' = c + 1
=============================================================================
