---------------------------- MODULE FrontendJudge ----------------------------
(***************************************************************************)
(* Judge for C12: Data!Cases[c] = [f (call form), api ("einsum" |          *)
(* "array_contract" | "ncon"), inputs, output] where inputs / output are   *)
(* what the implementation's parser produced, with every symbol that is    *)
(* not a named label of the form replaced by 2000 + its ordinal.  They     *)
(* must equal Frontend!Inputs / Output (ArrayContractOutput, NconOutput)   *)
(* up to a consistent renaming of the ellipsis symbols.                    *)
(* Verdict <<"V", c, clause>>.                                             *)
(***************************************************************************)
EXTENDS Data, Frontend
VARIABLE c
Cat(ss) == LET R[k \in 0..Len(ss)] == IF k = 0 THEN <<>> ELSE R[k - 1] \o ss[k] IN R[Len(ss)]
(* position-wise: named labels equal; ellipsis labels correspond one-to-one to fresh symbols *)
SameUpToEll(want, got) ==
    /\ Len(want) = Len(got)
    /\ \A k \in DOMAIN want : (want[k] > 0) => got[k] = want[k]
    /\ \A k \in DOMAIN want : (want[k] < 0) => got[k] >= 2000
    /\ \A a, b \in DOMAIN want : (want[a] < 0 /\ want[b] < 0) => ((want[a] = want[b]) <=> (got[a] = got[b]))
Clause(k) ==
    LET f == k.f
        wantout == CASE k.api = "einsum" -> Output(f)
                     [] k.api = "array_contract" -> IF f.out.given THEN Output(f) ELSE ArrayContractOutput(f)
                     [] k.api = "ncon" -> NconOutput(f)
    IN
    IF ~ShapeOK(f) THEN "form-malformed"
    ELSE IF Len(k.inputs) # Len(f.terms) THEN "number-of-inputs"
    ELSE IF ~SameUpToEll(Cat(Inputs(f)) \o wantout, Cat(k.inputs) \o k.output) THEN
         (IF ~SameUpToEll(Cat(Inputs(f)), Cat(k.inputs)) THEN "parsed-inputs-differ" ELSE "parsed-output-differs")
    ELSE "ok"
Init == c = 1
Next == c <= Len(Cases) /\ PrintT(<<"V", c, Clause(Cases[c])>>) /\ c' = c + 1
=============================================================================
