SPECIFICATION Spec
CONSTANTS
  Pool <- PoolDef
  Fp <- FpDef
  Scores <- ScoresDef
  Overwrite = "yes"
  CacheOnly = FALSE
  HasDisk = TRUE
  UpdateModes <- UM_all
  MaxQueries = 4
INVARIANT AnswersQuery
INVARIANT CacheOnlyNeverRuns
INVARIANT MemCoherent
INVARIANT NoDiskNoFiles
PROPERTY RepeatIsHit
PROPERTY ImprovedMonotone
PROPERTY UpdateRespectsMode
CHECK_DEADLOCK FALSE
