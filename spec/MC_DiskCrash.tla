---- MODULE MC_DiskCrash ----
EXTENDS DiskCrash
====
