------------------------------ MODULE MC_Tree ------------------------------
EXTENDS Tree
\* 4 tensors: hyper index 1 (on 1,2,3 and output), bond 2, repeated 3, dangling 4, bond 5
N_A == [inputs |-> << <<1, 2>>, <<1, 3, 3>>, <<1, 2, 5>>, <<5, 4>> >>,
        output |-> <<1>>, dim |-> <<2, 3, 2, 2, 2>>, rank |-> <<3, 1, 2, 5, 4>>, id |-> 1]
\* 3 tensors, two output indices, disconnected scalar-like part
N_B == [inputs |-> << <<1, 2>>, <<2, 3>>, <<4>> >>,
        output |-> <<3, 1>>, dim |-> <<2, 2, 3, 2>>, rank |-> <<2, 1, 4, 3>>, id |-> 2]
NetsA == {N_A}
NetsB == {N_B}
NetsAB == {N_A, N_B}
QK == {"contract", "stats", "copy"}
SmallSl == Len(sliced) <= 2
====
