---- MODULE MC_HyperOpt ----
EXTENDS HyperOpt
ScoresDef == {1, 2}
ScoresOne == {1}
====
