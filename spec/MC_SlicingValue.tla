-------------------------- MODULE MC_SlicingValue --------------------------
(***************************************************************************)
(* Design-level C06 on values: for two small networks (hyper index,        *)
(* repeated index, output indices on one / several tensors, dangling       *)
(* index) and EVERY pattern of <= 3 sliced or projected indices, the       *)
(* per-slice sections, summed over inner sliced indices, equal the chunk   *)
(* of the full contraction at every output key.                            *)
(***************************************************************************)
EXTENDS Slicing
VARIABLES net, sliced
NA == [inputs |-> << <<1, 2>>, <<1, 3, 3>>, <<1, 2, 4>> >>, output |-> <<4, 1>>,
       dim |-> <<2, 3, 2, 2>>, rank |-> <<3, 1, 2, 4>>]
NB == [inputs |-> << <<1, 2>>, <<2, 3>>, <<4, 3>> >>, output |-> <<1>>,
       dim |-> <<2, 2, 3, 2>>, rank |-> <<2, 1, 4, 3>>]
Init == net \in {NA, NB} /\ sliced = <<>>
Next == /\ Len(sliced) < 3
        /\ \E ix \in Ixs(net) \ SlSet(sliced) : \E v \in -1..(net.dim[ix] - 1) :
              sliced' = SlicedAfterRemoveN(net, sliced, ix, v)
        /\ UNCHANGED net
Spec == Init /\ [][Next]_<<net, sliced>>
Reassemble == SlicesReassemble(net, sliced)
Bij        == KeysBijective(net, sliced)
=============================================================================
