--------------------------------- MODULE Bmm ---------------------------------
(***************************************************************************)
(* One- and two-operand einsum by transpose / reshape / matmul (C11).      *)
(*                                                                         *)
(* An equation is [a, b, out] with a, b, out sequences of letter ids       *)
(* (b = <<0>> marks a single-operand equation); dim maps letters to sizes. *)
(* The VALUE is Network!Einsum of the two-tensor network.  The case        *)
(* analysis any matmul-based plan must realise classifies every letter:    *)
(*   batch      on a, on b, in out                                         *)
(*   contracted on a, on b, not in out     (summed inside the matmul)      *)
(*   keepA/B    on one operand and in out                                  *)
(*   summedA/B  on one operand only, not in out (summed beforehand)        *)
(* with letters of size 1 set aside (they can be dropped and, if in out,   *)
(* re-inserted).  A plan must be a pure (broadcast) multiplication iff no  *)
(* letter is contracted, and may replace the preparatory single-operand    *)
(* einsum by a bare transposition only if the operand has no repeated      *)
(* letter, no size-1 axis and nothing to sum.                              *)
(***************************************************************************)
EXTENDS Network

Rng(s) == {s[k] : k \in DOMAIN s}
Single(e) == e.b = <<0>>
NetOf(e, dim) == [inputs |-> IF Single(e) THEN <<e.a>> ELSE <<e.a, e.b>>, output |-> e.out, dim |-> dim]
Value(e, dim) == Einsum(NetOf(e, dim), <<>>)

Eff(dim, ix) == dim[ix] > 1
Bat(e, dim)   == {ix \in Rng(e.a) \cap Rng(e.b) \cap Rng(e.out) : Eff(dim, ix)}
Con(e, dim)   == {ix \in (Rng(e.a) \cap Rng(e.b)) \ Rng(e.out) : Eff(dim, ix)}
KeepA(e, dim) == {ix \in (Rng(e.a) \ Rng(e.b)) \cap Rng(e.out) : Eff(dim, ix)}
KeepB(e, dim) == {ix \in (Rng(e.b) \ Rng(e.a)) \cap Rng(e.out) : Eff(dim, ix)}
SumA(e, dim)  == {ix \in Rng(e.a) \ (Rng(e.b) \cup Rng(e.out)) : Eff(dim, ix)}
SumB(e, dim)  == {ix \in Rng(e.b) \ (Rng(e.a) \cup Rng(e.out)) : Eff(dim, ix)}

MustBePure(e, dim) == Con(e, dim) = {}
NoRep(s) == \A i, j \in DOMAIN s : i # j => s[i] # s[j]
(* a bare transposition of operand `t` is a legal preparation only if nothing has to be
   merged (repeated letters), dropped (size 1) or summed *)
TransposeLegal(t, dim, summed) ==
    /\ NoRep(t) /\ \A k \in DOMAIN t : Eff(dim, t[k]) /\ t[k] \notin summed

(* well-formed equations: output letters distinct and present on an operand *)
WellFormed(e) == NoRep(e.out) /\ Rng(e.out) \subseteq (Rng(e.a) \cup (IF Single(e) THEN {} ELSE Rng(e.b)))
=============================================================================
