SPECIFICATION Spec
CONSTANTS
  Pool <- PoolGen
  Fp <- FpGen
  Scores <- ScoresOne
  Overwrite = "no"
  CacheOnly = FALSE
  HasDisk = TRUE
  UpdateModes <- UM_none
  MaxQueries = 3
INVARIANT EmitSeq
CHECK_DEADLOCK FALSE
