---------------------------- MODULE ProgramJudge ----------------------------
(***************************************************************************)
(* Trace validation of compiled pairwise programs (C01, C02, C06, C19).    *)
(* Data!Cases[c] = [net, sliced (seq of [ind, project]), steps, value,     *)
(*                  refvalue, check_value]                                 *)
(* steps[k] is one of                                                      *)
(*   [op |-> "pre",  n, lhs, rhs]                                          *)
(*   [op |-> "tdot", p, l, r, al, ar, perm]   (1-based axes)               *)
(*   [op |-> "ein",  p, l, r, lhs, rhs, out]                               *)
(* One TLA+ action per step kind; a step whose guard fails ends the trace  *)
(* with its clause name.  Verdict per case: <<"V", c, clause, pc>>.        *)
(***************************************************************************)
EXTENDS Data, Program, TreeDefs
VARIABLES c, pc, axes

Case     == Cases[c]
Sl       == SlSet(Case.sliced)
Step     == Case.steps[pc]
vars     == <<c, pc, axes>>

Start(k) == /\ c' = k
            /\ pc' = 1
            /\ axes' = IF k <= Len(Cases) THEN InitAxes(Cases[k].net, SlSet(Cases[k].sliced)) ELSE <<>>

Verdict(cl) == PrintT(<<"V", c, cl, pc>>) /\ Start(c + 1)

Init == c = 1 /\ pc = 1
        /\ axes = IF Len(Cases) >= 1 THEN InitAxes(Cases[1].net, SlSet(Cases[1].sliced)) ELSE <<>>

Live == c <= Len(Cases)
More == Live /\ pc <= Len(Case.steps)

StepPre ==
    /\ More /\ Step.op = "pre"
    /\ LET g == PreGuard(Case.net, axes, Step.n, Step.lhs, Step.rhs) IN
       IF g = "ok" THEN /\ axes' = PreResult(axes, Step.n, Step.lhs, Step.rhs)
                        /\ pc' = pc + 1 /\ c' = c
       ELSE Verdict(g)

StepTdot ==
    /\ More /\ Step.op = "tdot"
    /\ LET g == TdotGuard(Case.net, axes, Step.p, Step.l, Step.r, Step.al, Step.ar, Step.perm) IN
       IF g = "ok" THEN /\ axes' = TdotResult(axes, Step.p, Step.l, Step.r, Step.al, Step.ar, Step.perm)
                        /\ pc' = pc + 1 /\ c' = c
       ELSE Verdict(g)

StepEin ==
    /\ More /\ Step.op = "ein"
    /\ LET g == EinGuard(Case.net, axes, Step.p, Step.l, Step.r, Step.lhs, Step.rhs, Step.out) IN
       IF g = "ok" THEN /\ axes' = EinResult(axes, Step.p, Step.l, Step.r, Step.lhs, Step.rhs, Step.out)
                        /\ pc' = pc + 1 /\ c' = c
       ELSE Verdict(g)

(* value clauses: the implementation's result (canonical integer arrays,  *)
(* flattened row-major) against the definitional einsum; `refvalue` is the *)
(* harness' own evaluator, cross-checked here so that it can be trusted    *)
(* for the bulk of the numeric comparisons                                 *)
ValueClause ==
    IF ~Case.check_value THEN "ok"
    ELSE LET v == Einsum(Case.net, ProjFix(Case.sliced)) IN
         IF Case.refvalue # v THEN "refeval-disagrees-with-spec"
         ELSE IF Case.value # v THEN "value"
         ELSE "ok"

Finish ==
    /\ Live /\ pc > Len(Case.steps)
    /\ LET d == DoneClause(Case.net, axes, Sl) IN
       Verdict(IF d # "ok" THEN d ELSE ValueClause)

Next == StepPre \/ StepTdot \/ StepEin \/ Finish
=============================================================================
