----------------------------- MODULE BuildJudge -----------------------------
(***************************************************************************)
(* Trace validation of tree construction against spec/Build.tla.           *)
(* Data!Cases[c] = [net, events]; an event is                              *)
(*   [op ("pair" | "group" | "auto"), G (set of nodes handed over),        *)
(*    post [nodes, ch (seq <<p, l, r>>), childless (set; judged only if   *)
(*          `tracked`)             , groups (set of <<c, set of nodes>>:   *)
(*          get_incomplete_nodes()), complete (is_complete()),             *)
(*          tracked (BOOLEAN), tflops, twrite, tmax,                       *)
(*          figs (seq of [n, legs, size, flops] for every parent)]]        *)
(* The judge keeps <<nodes, ch>> of Build.tla; each event must be a step   *)
(* the machine allows (for "group" / "auto": SOME binary tree filled in),  *)
(* and everything reported about the new state must equal its definition.  *)
(* Verdict <<"V", c, clause, pc>>.                                         *)
(***************************************************************************)
EXTENDS Data, BuildDefs
VARIABLES c, pc, nodes, ch

Case == Cases[c]
Ev   == Case.events[pc]
Live == c <= Len(Cases)
Net  == Case.net

ChOf(s) == [p \in {s[j][1] : j \in DOMAIN s} |->
              LET j == CHOOSE j \in DOMAIN s : s[j][1] = p IN <<s[j][2], s[j][3]>>]
Unord(f, p) == {f[p][1], f[p][2]}
Extends(f, g) == \A p \in DOMAIN f : p \in DOMAIN g /\ Unord(g, p) = Unord(f, p)

Start(k) == c' = k /\ pc' = 1 /\ nodes' = {} /\ ch' = <<>>
Verdict(cl) == PrintT(<<"V", c, cl, pc>>) /\ Start(c + 1)
Init == c = 1 /\ pc = 1 /\ nodes = {} /\ ch = <<>>

Nodes0 == IF pc = 1 THEN LeafNodes(Net) \cup {Leaves(Net)} ELSE nodes

Disjoint(G) == \A a, b \in G : a # b => a \cap b = {}
Enabled(op, G) ==
    CASE op = "pair"  -> /\ Cardinality(G) = 2 /\ Disjoint(G) /\ (UNION G) \notin DOMAIN ch
                         /\ \A a \in G : a # {} /\ ~HasParent(ch, a)
                         /\ Laminar(Nodes0 \cup G \cup {UNION G})
      [] op = "group" -> /\ Cardinality(G) >= 3 /\ Disjoint(G) /\ (UNION G) \notin DOMAIN ch
                         /\ \A a \in G : a # {} /\ ~HasParent(ch, a)
                         /\ Laminar(Nodes0 \cup G \cup {UNION G})
                         /\ \A n \in Nodes0 : (n \subseteq UNION G /\ n # UNION G) => \E a \in G : n \subseteq a
      [] op = "auto"  -> TRUE
      [] OTHER -> FALSE

NewParents(nch) == DOMAIN nch \ DOMAIN ch
Transition(op, G, nnd, nch) ==
    IF ~Extends(ch, nch) THEN "existing-children-changed"
    ELSE IF ~(Nodes0 \subseteq nnd) THEN "node-lost"
    ELSE CASE op = "pair" ->
                 IF nnd # Nodes0 \cup G \cup {UNION G} THEN "nodes-differ"
                 ELSE IF NewParents(nch) # {UNION G} THEN "parents-differ"
                 ELSE IF Unord(nch, UNION G) # G THEN "children-of-new-parent-wrong" ELSE "ok"
           [] op = "group" ->
                 IF ~Covered(nch, UNION G, G) THEN "no-binary-tree-over-the-group"
                 ELSE IF Cardinality(NewParents(nch)) # Cardinality(G) - 1 THEN "parents-differ"
                 ELSE IF nnd # Nodes0 \cup G \cup NewParents(nch) THEN "nodes-differ" ELSE "ok"
           [] op = "auto" ->
                 LET CL == Childless(Nodes0, ch) IN
                 IF Childless(nnd, nch) # {} THEN "still-incomplete"
                 ELSE IF \E k \in CL : ~Covered(nch, k, GroupOf(Net, Nodes0, ch, k)) THEN "no-binary-tree-over-a-group"
                 ELSE IF Cardinality(NewParents(nch)) #
                         SumOver(CL, LAMBDA k : Cardinality(GroupOf(Net, Nodes0, ch, k)) - 1) THEN "parents-differ"
                 ELSE IF nnd # Nodes0 \cup NewParents(nch) THEN "nodes-differ" ELSE "ok"

Reported(p, nnd, nch) ==
    IF ~WFPartial(Net, nnd, nch) THEN "not-well-formed"
    ELSE IF p.tracked /\ p.childless # Childless(nnd, nch) THEN "tracked-childless-wrong"
    ELSE IF p.groups # {<<k, GroupOf(Net, nnd, nch, k)>> : k \in Childless(nnd, nch)} THEN "incomplete-nodes-wrong"
    ELSE IF p.complete # CompletePartial(nnd, nch) THEN "is-complete-wrong"
    ELSE IF p.tracked /\ p.tflops # BuiltFlops(Net, nch) THEN "tracked-flops-wrong"
    ELSE IF p.tracked /\ p.twrite # BuiltWrite(Net, nch) THEN "tracked-write-wrong"
    ELSE IF p.tracked /\ p.tmax # BuiltMax(Net, nch) THEN "tracked-size-wrong"
    ELSE IF \E j \in DOMAIN p.figs : LET f == p.figs[j] IN
              \/ f.legs # Legs(Net, f.n, {}) \/ f.size # Size(Net, f.n, {})
              \/ f.flops # NodeFlops(Net, nch, {}, f.n) THEN "node-figure-wrong"
    ELSE "ok"

Step ==
    /\ Live /\ pc <= Len(Case.events)
    /\ LET nnd == Ev.post.nodes
           nch == ChOf(Ev.post.ch)
       IN IF ~Enabled(Ev.op, Ev.G) THEN Verdict("action-not-enabled-in-spec")
          ELSE LET t == Transition(Ev.op, Ev.G, nnd, nch) IN
          IF t # "ok" THEN Verdict("transition:" \o t)
          ELSE LET r == Reported(Ev.post, nnd, nch) IN
          IF r # "ok" THEN Verdict("reported:" \o r)
          ELSE /\ nodes' = nnd /\ ch' = nch /\ pc' = pc + 1 /\ c' = c
Finish == Live /\ pc > Len(Case.events) /\ Verdict("ok")
Next == Step \/ Finish
=============================================================================
