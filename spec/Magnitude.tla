------------------------------ MODULE Magnitude ------------------------------
(***************************************************************************)
(* Why exponent stripping survives extreme scales (property C19): a        *)
(* magnitude abstraction of the pairwise program.                          *)
(*                                                                         *)
(* mag[n] bounds |log10 max|x||| of the array held for live node n, in     *)
(* units of 1/100 of a decade.  Leaves carry up to Bound (the property     *)
(* allows |log10| <= 100); with stripping on, every intermediate is        *)
(* divided by its largest entry as soon as it is produced, so it re-enters *)
(* later steps with magnitude 0.  The invariant is the range argument:     *)
(* every product formed has |log10| <= 2 * Bound + Slack, far inside the   *)
(* range of a double (308), so mantissa and exponent stay finite.          *)
(***************************************************************************)
EXTENDS Integers, FiniteSets, TLC
CONSTANTS N, Bound, Slack, Strip
VARIABLES live, mag, worst
vars == <<live, mag, worst>>
Abs(x) == IF x < 0 THEN -x ELSE x
Init == /\ live = {{t} : t \in 1..N}
        /\ mag \in [live -> {-Bound, 0, Bound}]
        /\ worst = 0
Contract(a, b) ==
    /\ a \in live /\ b \in live /\ a # b
    /\ \E s \in -Slack..Slack :                 \* the sum over contracted extents shifts the magnitude a little
         LET raw == mag[a] + mag[b] + s IN
         /\ worst' = IF Abs(raw) > worst THEN Abs(raw) ELSE worst
         /\ live' = (live \ {a, b}) \cup {a \cup b}
         /\ mag' = [n \in live' |-> IF n = a \cup b THEN (IF Strip THEN 0 ELSE raw) ELSE mag[n]]
Next == \E a, b \in live : Contract(a, b)
Spec == Init /\ [][Next]_vars
InRange == worst <= 2 * Bound + Slack
OperandsBounded == \A n \in live : Abs(mag[n]) <= Bound
=============================================================================
