----------------------------- MODULE ThreadsJudge -----------------------------
(***************************************************************************)
(* Judge for C16: Data!Cases[c] = [answers (function thread -> sequence of *)
(* <<query id, id of the contraction the returned tree / path belongs to   *)
(* (0 = none of the pool)>>), schedule].  The clause is Threads!RightAnswer*)
(* evaluated on the recorded answers.  Verdict <<"V", c, clause, t, k>>.   *)
(***************************************************************************)
EXTENDS Data, Naturals, Sequences, FiniteSets
VARIABLE c
Bad(k) == {<<t, i>> \in {<<t, i>> : t \in DOMAIN k.answers, i \in 1..10} :
              i \in DOMAIN k.answers[t] /\ k.answers[t][i][1] # k.answers[t][i][2]}
Clause(k) == IF Bad(k) = {} THEN <<"ok", 0, 0>>
             ELSE LET b == CHOOSE b \in Bad(k) : TRUE IN <<"answer-belongs-to-another-query", b[1], b[2]>>
Init == c = 1
Next == c <= Len(Cases) /\ LET v == Clause(Cases[c]) IN PrintT(<<"V", c, v[1], v[2], v[3]>>) /\ c' = c + 1
=============================================================================
