SPECIFICATION Spec
CONSTANTS
  Threads <- T2
  Queue <- Q2
  Cost <- CostDef
  Variant = "perthread"
  UseCache = TRUE
  Nest = FALSE
  StoreFirst = FALSE
  MaxHist = TRUE
INVARIANT EmitSchedule
CHECK_DEADLOCK FALSE
