SPECIFICATION Spec
CONSTANTS
  Threads <- T2
  Queue <- Q2
  Cost <- CostDef
  Variant = "perthread"
  UseCache = TRUE
  MaxHist = TRUE
INVARIANT EmitSchedule
CHECK_DEADLOCK FALSE
