SPECIFICATION Spec
CONSTANTS
  Threads <- T1
  Queue <- Q1
  Cost <- CostDef
  Variant = "perthread"
  UseCache = TRUE
  Nest = TRUE
  StoreFirst = TRUE
  MaxHist = FALSE
INVARIANT RightAnswer
CHECK_DEADLOCK FALSE
