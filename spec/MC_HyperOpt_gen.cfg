SPECIFICATION Spec
CONSTANTS
  MaxRepeats = 7
  PreDispatch = 5
  Scores <- ScoresOne
  Inf = 99
  MaxFail = 0
  MaxHist = TRUE
  StopRule = "none"
  Amount = 0
  CheckFirst = FALSE
  JIT = TRUE
INVARIANT EmitHist
CHECK_DEADLOCK FALSE
