----------------------------- MODULE SliceJudge -----------------------------
(***************************************************************************)
(* Trace judge for slicing (C06).  Data!Cases[c] =                         *)
(*  [net, sliced (seq [ind, project], the implementation's order),         *)
(*   nslices, keys (seq over i of function ind -> value),                  *)
(*   chunkkeys (seq of functions ind -> value, in emission order),         *)
(*   check_values, slicevals (seq over i of flat seq), gathered (flat),    *)
(*   chunkvals (seq of flat)]                                              *)
(* Clauses: canonical order, number of slices, every key = SliceKey(i)     *)
(* (bijectivity then follows from MC_Slicing), chunk keys tile the output  *)
(* key space exactly once in block order, and for cases with check_values: *)
(* every slice value = the section at its key, every chunk = ChunkValue,   *)
(* gathered = the contraction.  Verdict <<"V", c, clause, detail>>.        *)
(***************************************************************************)
EXTENDS Data, Slicing
VARIABLE c

Clause(k) ==
    LET net == k.net  sl == k.sliced  n == NSlices(net, sl) IN
    IF ~IsCanonN(net, sl) \/ Cardinality(SlSet(sl)) # Len(sl) THEN <<"not-canonical", 0>>
    ELSE IF k.nslices # n THEN <<"nslices", n>>
    ELSE IF Len(k.keys) # n THEN <<"keys-count", Len(k.keys)>>
    ELSE IF \E i \in 0..(n - 1) : k.keys[i + 1] # SliceKey(net, sl, i)
        THEN <<"slice-key", CHOOSE i \in 0..(n - 1) : k.keys[i + 1] # SliceKey(net, sl, i)>>
    ELSE IF Len(k.chunkkeys) # NChunks(net, sl) THEN <<"chunk-count", Len(k.chunkkeys)>>
    ELSE IF \E o \in DOMAIN k.chunkkeys :
              k.chunkkeys[o] # OutKey(net, sl, (o - 1) * ChunkStep(net, sl))
        THEN <<"chunk-key", CHOOSE o \in DOMAIN k.chunkkeys :
                               k.chunkkeys[o] # OutKey(net, sl, (o - 1) * ChunkStep(net, sl))>>
    ELSE IF {k.chunkkeys[o] : o \in DOMAIN k.chunkkeys} # OutKeySpace(net, sl)
        THEN <<"chunks-do-not-tile", 0>>
    ELSE IF ~k.check_values THEN <<"ok", 0>>
    ELSE IF \E i \in 0..(n - 1) : k.slicevals[i + 1] # SliceValue(net, sl, i)
        THEN <<"slice-value", CHOOSE i \in 0..(n - 1) : k.slicevals[i + 1] # SliceValue(net, sl, i)>>
    ELSE IF \E o \in DOMAIN k.chunkvals : k.chunkvals[o] # ChunkValue(net, sl, k.chunkkeys[o])
        THEN <<"chunk-value", 0>>
    ELSE IF k.gathered # Einsum(net, ProjFix(sl)) THEN <<"gathered-value", 0>>
    ELSE <<"ok", 0>>

Init == c = 1
Next == /\ c <= Len(Cases)
        /\ LET v == Clause(Cases[c]) IN PrintT(<<"V", c, v[1], v[2]>>)
        /\ c' = c + 1
=============================================================================
