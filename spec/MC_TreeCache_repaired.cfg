SPECIFICATION Spec
CONSTANTS
  Net <- NetDef
  Prefill = TRUE
  MaxSteps = 4
  InitTrees <- Trees2
INVARIANT Shape
INVARIANT CacheCoherent
INVARIANT TotalsCoherent
CHECK_DEADLOCK FALSE
