SPECIFICATION Spec
CONSTANTS
  Nets <- NetsAC
  MaxHist = 0
  MaxGroup = 4
INVARIANT WF
INVARIANT TrackedOK
INVARIANT ChildlessOK
INVARIANT GroupsPartition
INVARIANT EveryParentlessGrouped
INVARIANT CompleteIff
PROPERTY OnlyGrows
CHECK_DEADLOCK FALSE
