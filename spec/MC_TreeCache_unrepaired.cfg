SPECIFICATION Spec
CONSTANTS
  Net <- NetDef
  Prefill = FALSE
  MaxSteps = 3
  InitTrees <- Trees2
INVARIANT Shape
INVARIANT CacheCoherent
INVARIANT TotalsCoherent
CHECK_DEADLOCK FALSE
