----------------------------- MODULE MC_Frontend -----------------------------
(***************************************************************************)
(* Enumerates call forms: 1..MaxTerms operands, <= 2 named axes each over  *)
(* `Labels`, ellipsis absent / leading / trailing / in the middle per      *)
(* operand, 0..MaxEll ellipsis axes per operand, explicit output (any      *)
(* arrangement of a subset of the labels, ellipsis leading) or implicit.   *)
(* Each form is emitted for the harness; design-level sanity theorems on   *)
(* Normalize are checked on every one.                                     *)
(***************************************************************************)
EXTENDS Frontend
CONSTANTS Labels, MaxTerms, MaxEll
VARIABLE f
NoRep(s) == \A i, j \in DOMAIN s : i # j => s[i] # s[j]
Seqs(n) == UNION {[1..r -> Labels] : r \in 0..n}
TermForms == {[pre |-> p, ell |-> e, post |-> q] : p \in Seqs(2), q \in Seqs(2), e \in BOOLEAN} \cap
             {t \in [pre : Seqs(2), ell : BOOLEAN, post : Seqs(2)] :
                  Len(t.pre) + Len(t.post) <= 2 /\ (~t.ell => t.post = <<>>)}
Shapes(t) == IF t.ell THEN {[k \in 1..(Len(t.pre) + Len(t.post) + n) |-> 2] : n \in 0..MaxEll}
             ELSE {[k \in 1..(Len(t.pre) + Len(t.post)) |-> 2]}
Outs(named, hasell) ==
    {[given |-> FALSE, pre |-> <<>>, ell |-> FALSE, post |-> <<>>]} \cup
    {[given |-> TRUE, pre |-> <<>>, ell |-> hasell, post |-> o] :
        o \in UNION {{s \in [1..r -> named] : NoRep(s)} : r \in 0..Cardinality(named)}}
Init == \E n \in 1..MaxTerms : \E ts \in [1..n -> TermForms] :
          \E sh \in {s \in [1..n -> UNION {Shapes(t) : t \in TermForms}] : \A k \in 1..n : s[k] \in Shapes(ts[k])} :
            LET named == UNION {Rng(Named(ts[k])) : k \in 1..n}
                hasell == \E k \in 1..n : ts[k].ell
            IN \E o \in Outs(named, hasell) : f = [terms |-> ts, out |-> o, shapes |-> sh]
Next == UNCHANGED f
Spec == Init /\ [][Next]_f
Sane == /\ ShapeOK(f)
        /\ \A k \in DOMAIN f.terms : Len(Inputs(f)[k]) = Len(f.shapes[k])
        /\ NoRep(Output(f))
        /\ Rng(Output(f)) \subseteq UNION {Rng(Inputs(f)[k]) : k \in DOMAIN f.terms}
        /\ (~f.out.given => Rng(Output(f)) = Once(f) \cup Rng(EllLabels(E(f))))
        /\ Rng(ArrayContractOutput(f)) = Once(f)
Emit == PrintT(<<"V", f, Inputs(f), Output(f), ArrayContractOutput(f)>>)
=============================================================================
