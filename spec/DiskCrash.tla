------------------------------ MODULE DiskCrash ------------------------------
(***************************************************************************)
(* Storing one entry of the on-disk cache, cut at any point (property C15).*)
(*                                                                         *)
(* File contents are abstracted to how much of the pickled payload they    *)
(* hold: "absent", <<"old">> (a complete earlier entry), <<"new", n>> with *)
(* n of PLen bytes of the new payload written.  The writer is a sequence of *)
(* micro-steps, one per system call; `Crash` may strike between any two of *)
(* them and inside a write (any split).  Afterwards a fresh reader process *)
(* looks the entry up.                                                     *)
(*                                                                         *)
(* Two writer protocols:                                                   *)
(*   "inplace"     open(final, truncate) ; write* ; close                  *)
(*   "temprename"  open(tmp, truncate) ; write* ; close ; rename(tmp,final)*)
(* and the reader either treats an undecodable file as an error it         *)
(* re-raises on every later query ("strict") or as a missing entry         *)
(* ("tolerant").                                                           *)
(***************************************************************************)
EXTENDS Naturals, Sequences, TLC
CONSTANTS Protocol, Reader, PLen, HasOld, Split
VARIABLES final, tmp, subdir, wpc, crashed, outcome, hist
vars == <<final, tmp, subdir, wpc, crashed, outcome, hist>>

Absent == <<"absent">>
Old    == <<"old">>
New(n) == <<"new", n>>
Complete(f) == f = Old \/ f = New(PLen)
Log(e) == hist' = Append(hist, e)

Init == /\ final = IF HasOld THEN Old ELSE Absent
        /\ tmp = Absent
        /\ subdir = ~Split          \* without directory_split the directory itself already exists
        /\ wpc = "start" /\ crashed = FALSE /\ outcome = "none" /\ hist = <<>>

Running == ~crashed /\ outcome = "none"

Mkdir == /\ Running /\ wpc = "start"
         /\ subdir' = TRUE /\ wpc' = "open"
         /\ UNCHANGED <<final, tmp, crashed, outcome>> /\ Log(<<"mkdir", 0>>)

Open == /\ Running /\ wpc = "open"
        /\ IF Protocol = "inplace" THEN final' = New(0) /\ tmp' = tmp
                                   ELSE tmp' = New(0) /\ final' = final
        /\ wpc' = "write"
        /\ UNCHANGED <<subdir, crashed, outcome>> /\ Log(<<"open", 0>>)

(* one write system call may transfer any positive number of the remaining bytes *)
Written == IF Protocol = "inplace" THEN final[2] ELSE tmp[2]
Write(n) == /\ Running /\ wpc = "write" /\ Written < PLen
            /\ n \in 1..(PLen - Written)
            /\ IF Protocol = "inplace" THEN final' = New(Written + n) /\ tmp' = tmp
                                       ELSE tmp' = New(Written + n) /\ final' = final
            /\ UNCHANGED <<subdir, wpc, crashed, outcome>> /\ Log(<<"write", n>>)

Close == /\ Running /\ wpc = "write" /\ Written = PLen
         /\ wpc' = IF Protocol = "inplace" THEN "done" ELSE "rename"
         /\ UNCHANGED <<final, tmp, subdir, crashed, outcome>> /\ Log(<<"close", 0>>)

Rename == /\ Running /\ wpc = "rename"
          /\ final' = tmp /\ tmp' = Absent /\ wpc' = "done"      \* atomic replacement
          /\ UNCHANGED <<subdir, crashed, outcome>> /\ Log(<<"rename", 0>>)

Crash == /\ Running /\ wpc # "done"
         /\ crashed' = TRUE
         /\ UNCHANGED <<final, tmp, subdir, wpc, outcome>> /\ Log(<<"crash", 0>>)

(* a fresh process queries the same contraction *)
Read == /\ (crashed \/ wpc = "done") /\ outcome = "none"
        /\ outcome' = IF final = Absent THEN "searched"              \* behaves as if absent
                      ELSE IF final = Old THEN "old"
                      ELSE IF final = New(PLen) THEN "new"
                      ELSE IF Reader = "tolerant" THEN "searched"
                      ELSE "fails-permanently"
        /\ UNCHANGED <<final, tmp, subdir, wpc, crashed>> /\ Log(<<"read", 0>>)

Next == Mkdir \/ Open \/ (\E n \in 1..PLen : Write(n)) \/ Close \/ Rename \/ Crash \/ Read
Spec == Init /\ [][Next]_vars

NeverPoisoned == outcome \in {"none", "old", "new", "searched"}
(* the final name never holds a partial payload (what the atomic protocol guarantees) *)
FinalAlwaysComplete == final = Absent \/ Complete(final)
(* history generation: every crash schedule, for replay on the real writer *)
(* an entry that was there before the writer started is never lost: under its name there is always the old entry or
   the complete new one ("entries stored before the crash remain readable") *)
OldNeverLost == HasOld => Complete(final)
EmitHist == outcome # "none" => PrintT(<<"V", hist, outcome, final>>)
=============================================================================
