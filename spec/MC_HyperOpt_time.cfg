SPECIFICATION Spec
CONSTANTS
  MaxRepeats = 5
  PreDispatch = 3
  Scores <- ScoresDef
  Inf = 99
  MaxFail = 2
  MaxHist = FALSE
  StopRule = "time"
  Amount = 0
  CheckFirst = FALSE
  JIT = FALSE
INVARIANT NoMoreThanRequested
INVARIANT ReportedOnce
INVARIANT BestIsMin
INVARIANT FailuresIsolated
INVARIANT AllReported
INVARIANT BestAtEnd
INVARIANT StopJustified
INVARIANT NoOverrun
INVARIANT NeverStops
PROPERTY StoppedIsFinal
PROPERTY Progress
CHECK_DEADLOCK FALSE
