SPECIFICATION Spec
CONSTANT MaxN = 4
CONSTANT MaxSingles = 2
INVARIANT EmitPath
CHECK_DEADLOCK FALSE
