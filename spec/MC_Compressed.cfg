SPECIFICATION Spec
INVARIANT IsOrdinary
INVARIANT Exact
INVARIANT Monotone
CHECK_DEADLOCK FALSE
