SPECIFICATION Spec
CONSTANT MaxN = 4
CONSTANT MaxSingles = 2
INVARIANT RoundTrip
INVARIANT MachineAgrees
CHECK_DEADLOCK FALSE
