SPECIFICATION Spec
CONSTANTS
  Protocol = "inplace"
  Reader = "tolerant"
  PLen = 3
  HasOld = FALSE
  Split = TRUE
INVARIANT EmitHist
CHECK_DEADLOCK FALSE
