SPECIFICATION Spec
CONSTANTS
  Desc <- DescDef
  Hash <- HashInj
  Obj <- ObjDef
  Val <- ValDef
  KeyIsHash = FALSE
  CacheObjects = FALSE
INVARIANT InvisibleState
PROPERTY ObjFresh
CHECK_DEADLOCK FALSE
