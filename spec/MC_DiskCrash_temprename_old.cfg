SPECIFICATION Spec
CONSTANTS
  Protocol = "temprename"
  Reader = "strict"
  PLen = 3
  HasOld = TRUE
  Split = FALSE
INVARIANT NeverPoisoned
INVARIANT OldNeverLost
INVARIANT FinalAlwaysComplete
CHECK_DEADLOCK FALSE
