------------------------------- MODULE MC_Bmm -------------------------------
(***************************************************************************)
(* Enumerates EVERY well-formed one- and two-operand equation over         *)
(* `Letters` with operand rank <= MaxRank and every output arrangement;    *)
(* one state per equation, emitted for the harness to replay on the real   *)
(* einsum.  Also checks the classification is a partition of the letters   *)
(* of size > 1.                                                            *)
(***************************************************************************)
EXTENDS Bmm
CONSTANTS Letters, MaxRank
VARIABLE eq
Terms == UNION {[1..r -> Letters] : r \in 0..MaxRank}
Arrangements(S) == UNION {{s \in [1..r -> S] : NoRep(s)} : r \in 0..Cardinality(S)}
Init == \E a \in Terms : \E b \in Terms \cup {<<0>>} :
           \E o \in Arrangements(Rng(a) \cup (IF b = <<0>> THEN {} ELSE Rng(b))) :
               eq = [a |-> a, b |-> b, out |-> o]
Next == UNCHANGED eq
Spec == Init /\ [][Next]_eq
Dim2 == [ix \in Letters |-> 2]
Partition ==
    LET parts == <<Bat(eq, Dim2), Con(eq, Dim2), KeepA(eq, Dim2), KeepB(eq, Dim2), SumA(eq, Dim2), SumB(eq, Dim2)>>
    IN  ~Single(eq) =>
        /\ UNION {parts[k] : k \in 1..6} = Rng(eq.a) \cup Rng(eq.b)
        /\ \A i, j \in 1..6 : i # j => parts[i] \cap parts[j] = {}
Emit == PrintT(<<"V", eq.a, eq.b, eq.out>>)
=============================================================================
