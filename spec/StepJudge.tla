------------------------------ MODULE StepJudge ------------------------------
(***************************************************************************)
(* Judge for C18: the library's separate contraction simulators replay the *)
(* same SSA path; every step they report is compared with the single       *)
(* definitional action Contract(l, r) of Network.tla:                      *)
(*    legs(l u r) = Legs, size = Size, flops = product over the indices on *)
(*    either operand.                                                      *)
(* Data!Cases[c] = [net, conv, sim, steps (seq of [l, r, legs, size,       *)
(* flops])].  conv = "def": leaves are taken after their single-tensor     *)
(* simplification (tree, annealer, simplified processor); conv = "raw":    *)
(* a leaf still carries every index written on it until it is contracted   *)
(* (hypergraph, raw processor).  Verdict <<"V", c, clause, step>>.         *)
(***************************************************************************)
EXTENDS Data, Network
VARIABLE c
OpLegs(k, S) == IF k.conv = "raw" /\ Cardinality(S) = 1
                THEN LeafLegsRaw(k.net, CHOOSE t \in S : TRUE, {}) ELSE Legs(k.net, S, {})
StepClause(k, s) ==
    LET p == s.l \cup s.r
        inv == OpLegs(k, s.l) \cup OpLegs(k, s.r)
    IN
    IF s.l \cap s.r # {} \/ s.l = {} \/ s.r = {} THEN "operands-overlap"
    ELSE IF s.legs # Legs(k.net, p, {}) THEN "legs"
    ELSE IF s.size # Size(k.net, p, {}) THEN "size"
    ELSE IF s.flops # Prod(k.net, inv) THEN "flops"
    ELSE "ok"
Clause(k) ==
    IF \A n \in DOMAIN k.steps : StepClause(k, k.steps[n]) = "ok" THEN <<"ok", 0>>
    ELSE LET n == CHOOSE n \in DOMAIN k.steps : StepClause(k, k.steps[n]) # "ok"
                       /\ \A j \in 1..(n - 1) : StepClause(k, k.steps[j]) = "ok"
         IN <<StepClause(k, k.steps[n]), n>>
Init == c = 1
Next == c <= Len(Cases) /\ LET v == Clause(Cases[c]) IN PrintT(<<"V", c, v[1], v[2]>>) /\ c' = c + 1
=============================================================================
