SPECIFICATION Spec
CONSTANTS
  Pool <- PoolDef
  Omit = "none"
  MaxLen = 3
INVARIANT EmitSeq
CHECK_DEADLOCK FALSE
