SPECIFICATION Spec
CONSTANTS
  Nets <- NetsAll
  MaxHist = 0
  ExplicitIds <- Ids
  KeepOutput = TRUE
INVARIANT DualOK
INVARIANT MemOK
INVARIANT LegsAgree
INVARIANT PredictOK
INVARIANT CounterOK
INVARIANT CapOK
PROPERTY OneNodeAtEnd
CHECK_DEADLOCK FALSE
