---------------------------- MODULE CompressedJudge ----------------------------
(***************************************************************************)
(* Judge for C20.  Data!Cases[c] = [net, ch (seq <<p,l,r>>), seq (the      *)
(* bottom-up order the estimate was computed in), chi, late, uncapped      *)
(* (BOOLEAN: chi is the harness's "huge"; the judge itself finds the other cases in which chi is at least every bond
   that arises: Compressed!NothingTruncated), rep [flops, maxsize,    *)
(* peak, write] (what compressed_contract_stats reported)].                *)
(* The report must equal the Compressed.tla machine (sizes always, flops   *)
(* when uncapped), the uncapped machine must equal the exact figures of    *)
(* the tree, and the capped estimates must not exceed the uncapped ones.   *)
(* Verdict <<"V", c, clause>>.                                             *)
(***************************************************************************)
EXTENDS Data, Compressed
VARIABLE c
ChOf(k) == [p \in {k.ch[j][1] : j \in DOMAIN k.ch} |->
              LET j == CHOOSE j \in DOMAIN k.ch : k.ch[j][1] = p IN <<k.ch[j][2], k.ch[j][3]>>]
Clause(k) ==
    LET ch == ChOf(k) IN
    IF ~Ordinary(k.net) THEN "network-not-ordinary"
    ELSE IF ~Complete(k.net, ch) THEN "tree-not-complete"
    ELSE IF ~LegalOrder(ch, k.seq) THEN "order-illegal"
    ELSE LET e == Estimate(k.net, ch, k.chi, k.late, k.seq)
             untr == k.uncapped \/ NothingTruncated(k.net, ch, k.chi, k.late, k.seq) IN
    IF k.rep.maxsize # e.maxsize THEN "largest-tensor-differs-from-model"
    ELSE IF k.rep.peak # e.peak THEN "peak-differs-from-model"
    ELSE IF k.rep.write # e.write THEN "write-differs-from-model"
    ELSE IF untr /\ k.rep.flops # e.flops THEN "flops-differ-from-model"
    ELSE IF untr /\ e # Estimate(k.net, ch, Huge, k.late, k.seq) THEN "spec-inconsistent"
    ELSE IF untr /\ ~ExactWhenUncapped(k.net, ch, k.late, k.seq) THEN "uncapped-estimate-not-exact"
    ELSE IF ~NeverExceedsUncapped(k.net, ch, k.chi, k.late, k.seq) THEN "capped-estimate-exceeds-uncapped"
    ELSE "ok"
Init == c = 1
Next == c <= Len(Cases) /\ PrintT(<<"V", c, Clause(Cases[c])>>) /\ c' = c + 1
=============================================================================
