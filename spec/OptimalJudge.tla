----------------------------- MODULE OptimalJudge -----------------------------
(***************************************************************************)
(* Judge for C09.  Data!Cases[c] = [net, obj, k, outer, ch (seq <<p,l,r>>, *)
(* the tree of the path the optimal finder returned)].  The claim is the   *)
(* cost of the returned tree, recomputed here from the definitions; it     *)
(* must not exceed the minimum over all candidate trees.                   *)
(* Verdict <<"V", c, clause, claimed, minimum>>.                           *)
(***************************************************************************)
EXTENDS Data, Optimal
VARIABLE c
ChOf(k) == [p \in {k.ch[j][1] : j \in DOMAIN k.ch} |->
              LET j == CHOOSE j \in DOMAIN k.ch : k.ch[j][1] = p IN <<k.ch[j][2], k.ch[j][3]>>]
WellFormed(net, ch) ==
    /\ Cardinality(DOMAIN ch) = Len(net.inputs) - 1 /\ Leaves(net) \in DOMAIN ch
    /\ \A p \in DOMAIN ch : LET l == ch[p][1]  r == ch[p][2] IN
          /\ l # {} /\ r # {} /\ l \cap r = {} /\ l \cup r = p
          /\ (Cardinality(l) > 1 => l \in DOMAIN ch) /\ (Cardinality(r) > 1 => r \in DOMAIN ch)
Clause(k) ==
    LET ch == ChOf(k) IN
    IF ~Simplified(k.net) THEN <<"network-outside-the-property", 0, 0>>
    ELSE IF ~WellFormed(k.net, ch) THEN <<"returned-path-not-a-complete-tree", 0, 0>>
    ELSE LET claimed == CostOf(k.net, ch, Leaves(k.net), k.obj, k.k)
             best    == MinOver(k.net, Leaves(k.net), k.obj, k.k, k.outer)
         IN IF claimed > best THEN <<"not-optimal", claimed, best>>
            ELSE IF k.outer /\ claimed < best THEN <<"spec-inconsistent", claimed, best>>
            ELSE <<"ok", claimed, best>>
Init == c = 1
Next == c <= Len(Cases) /\ LET v == Clause(Cases[c]) IN PrintT(<<"V", c, v[1], v[2], v[3]>>) /\ c' = c + 1
=============================================================================
