SPECIFICATION Spec
CONSTANTS
  Nets <- NetsB
  MaxHist = 0
  QueryKinds <- QK
INVARIANT CompleteInv
INVARIANT CanonInv
INVARIANT SizeFactor
INVARIANT FlopsFactor
INVARIANT LegsShape
INVARIANT CountRuleInv
CHECK_DEADLOCK FALSE
CONSTRAINT SmallSl
