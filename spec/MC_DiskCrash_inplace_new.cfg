SPECIFICATION Spec
CONSTANTS
  Protocol = "inplace"
  Reader = "strict"
  PLen = 3
  HasOld = FALSE
  Split = TRUE
INVARIANT NeverPoisoned

CHECK_DEADLOCK FALSE
