------------------------------ MODULE TreeDefs ------------------------------
(***************************************************************************)
(* Definitional figures of a contraction tree.                             *)
(*   ch     : function  internal node -> <<left, right>>  (nodes are sets  *)
(*            of leaf ids)                                                 *)
(*   sliced : sequence of records [ind, project] (project = -1: sliced,    *)
(*            otherwise the fixed value of a projected index)              *)
(* Everything is derived from the network and the tree shape alone.        *)
(***************************************************************************)
EXTENDS Network

Max2(a, b) == IF a >= b THEN a ELSE b
MaxSet(S)  == CHOOSE m \in S : \A x \in S : x <= m

SlSet(sliced)      == {sliced[k].ind : k \in DOMAIN sliced}
Mult(net, sliced)  == FoldSet(LAMBDA k, acc :
                          acc * (IF sliced[k].project = -1 THEN net.dim[sliced[k].ind] ELSE 1),
                          1, DOMAIN sliced)

(* children is a full binary tree over exactly the leaves of net *)
Complete(net, ch) ==
    LET N == Len(net.inputs) IN
    /\ N >= 2
    /\ Cardinality(DOMAIN ch) = N - 1
    /\ Leaves(net) \in DOMAIN ch
    /\ \A p \in DOMAIN ch :
          LET l == ch[p][1]  r == ch[p][2] IN
          /\ l # {} /\ r # {} /\ l \cap r = {} /\ l \cup r = p
          /\ p \subseteq Leaves(net)
          /\ (Cardinality(l) > 1 => l \in DOMAIN ch)
          /\ (Cardinality(r) > 1 => r \in DOMAIN ch)

NodeFlops(net, ch, Sl, p) == Flops(net, ch[p][1], ch[p][2], Sl)
NodeInvolved(net, ch, Sl, p) == Involved(net, ch[p][1], ch[p][2], Sl)

TotFlops(net, ch, sliced) ==
    Mult(net, sliced) * SumOver(DOMAIN ch, LAMBDA p : NodeFlops(net, ch, SlSet(sliced), p))
TotWrite(net, ch, sliced) ==
    Mult(net, sliced) * SumOver(DOMAIN ch, LAMBDA p : Size(net, p, SlSet(sliced)))
MaxSize(net, ch, sliced) ==
    MaxSet({Size(net, p, SlSet(sliced)) : p \in DOMAIN ch})
Combo(net, ch, sliced, factor) ==
    Mult(net, sliced) * SumOver(DOMAIN ch, LAMBDA p :
        NodeFlops(net, ch, SlSet(sliced), p) + factor * Size(net, p, SlSet(sliced)))
(* the per-step maximum variant ("limit" objective): every step costs max(flops, factor * size) *)
Limit(net, ch, sliced, factor) ==
    Mult(net, sliced) * SumOver(DOMAIN ch, LAMBDA p :
        Max2(NodeFlops(net, ch, SlSet(sliced), p), factor * Size(net, p, SlSet(sliced))))
SlicedInputs(net, sliced) == {t \in Leaves(net) : OnT(net, t) \cap SlSet(sliced) # {}}
PreLeaves(net, sliced)    == {t \in Leaves(net) : NeedsPre(net, t, SlSet(sliced))}

(* a legal bottom-up emission: every internal node once, children first   *)
LegalOrder(ch, seq) ==
    /\ Len(seq) = Cardinality(DOMAIN ch)
    /\ SeqRange(seq) = DOMAIN ch
    /\ \A k \in DOMAIN seq : \A c \in {ch[seq[k]][1], ch[seq[k]][2]} :
          Cardinality(c) > 1 => \E j \in 1..(k - 1) : seq[j] = c

(* peak concurrent memory of a given bottom-up sequence: all (preprocessed)*)
(* inputs live at the start; a step needs both operands and the result    *)
RECURSIVE PeakFold(_, _, _, _, _, _, _)
PeakFold(net, ch, Sl, seq, k, tot, peak) ==
    IF k > Len(seq) THEN peak
    ELSE LET p    == seq[k]
             tot1 == tot + Size(net, p, Sl)
         IN  PeakFold(net, ch, Sl, seq, k + 1,
                      tot1 - Size(net, ch[p][1], Sl) - Size(net, ch[p][2], Sl),
                      Max2(peak, tot1))
Peak(net, ch, sliced, seq) ==
    LET Sl   == SlSet(sliced)
        tot0 == SumOver(Leaves(net), LAMBDA t : Size(net, {t}, Sl))
    IN  PeakFold(net, ch, Sl, seq, 1, tot0, tot0)

(* canonical order in which the implementation keeps sliced indices: output *)
(* indices first, then by name (net.rank[ix] = rank of the index's label)    *)
BeforeN(net, a, b) == LET ia == ~InOut(net, a.ind)  ib == ~InOut(net, b.ind) IN
                      IF ia # ib THEN ib ELSE net.rank[a.ind] < net.rank[b.ind]
RECURSIVE InsertCanonN(_, _, _)
InsertCanonN(net, s, x) == IF s = <<>> THEN <<x>>
                           ELSE IF BeforeN(net, x, Head(s)) THEN <<x>> \o s
                           ELSE <<Head(s)>> \o InsertCanonN(net, Tail(s), x)
IsCanonN(net, s) == \A a, b \in DOMAIN s : a < b => BeforeN(net, s[a], s[b])
SlicedAfterRemoveN(net, s, ix, v) == InsertCanonN(net, s, [ind |-> ix, project |-> v])
SlicedAfterRestore(s, ix)         == SelectSeq(s, LAMBDA e : e.ind # ix)

(* cost of slicing the set S of indices on top of the already sliced set Sl0 (C07):
   largest intermediate, flops of ONE slice, number of additional slices *)
FlopsOne(net, ch, Sl) == SumOver(DOMAIN ch, LAMBDA p : NodeFlops(net, ch, Sl, p))
SizeMax(net, ch, Sl)  == MaxSet({Size(net, p, Sl) : p \in DOMAIN ch})
CostOfN(net, ch, Sl0, S) ==
    [size |-> SizeMax(net, ch, Sl0 \cup S), flops |-> FlopsOne(net, ch, Sl0 \cup S), nslices |-> Prod(net, S)]
(* overhead target <<num, den>>: total flops of all slices at most num/den of the unsliced flops f0 *)
OverOKN(c, f0, tov) == tov = <<0, 0>> \/ c.nslices * c.flops * tov[2] <= tov[1] * f0

(* slice -> fix map for value semantics: projected indices are held fixed *)
ProjFix(sliced) ==
    LET P == {k \in DOMAIN sliced : sliced[k].project # -1}
    IN  [ix \in {sliced[k].ind : k \in P} |->
            sliced[CHOOSE k \in P : sliced[k].ind = ix].project]
=============================================================================
