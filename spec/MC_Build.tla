------------------------------ MODULE MC_Build ------------------------------
EXTENDS Build
\* 4 tensors: hyper index 1 (on 1,2,3 and output), bond 2, repeated 3, dangling 4, bond 5
N_A == [inputs |-> << <<1, 2>>, <<1, 3, 3>>, <<1, 2, 5>>, <<5, 4>> >>,
        output |-> <<1>>, dim |-> <<2, 3, 2, 2, 2>>, rank |-> <<3, 1, 2, 5, 4>>, id |-> 1]
\* 5 tensors: a ring with one output index and a hyper index
N_C == [inputs |-> << <<1, 2>>, <<2, 3>>, <<3, 4, 6>>, <<4, 5, 6>>, <<5, 1, 6, 7>> >>,
        output |-> <<7>>, dim |-> <<2, 3, 2, 2, 3, 2, 2>>, rank |-> <<1, 2, 3, 4, 5, 6, 7>>, id |-> 2]
NetsA == {N_A}
NetsAC == {N_A, N_C}
=============================================================================
