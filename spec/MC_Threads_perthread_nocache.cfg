SPECIFICATION Spec
CONSTANTS
  Threads <- T3
  Queue <- Q3
  Cost <- CostDef
  Variant = "perthread"
  UseCache = FALSE
  Nest = FALSE
  StoreFirst = FALSE
  MaxHist = FALSE
INVARIANT RightAnswer
CHECK_DEADLOCK FALSE
