-------------------------------- MODULE Cache --------------------------------
(***************************************************************************)
(* In-memory caching of paths / expressions by the interface (C13).        *)
(*                                                                         *)
(* A call is [inputs, output, dims (seq over the labels 1..K in order of   *)
(* label id), optimize, kwargs (set of <<name, value>>)]; two calls mean   *)
(* the same contraction iff they agree after canonical relabelling (labels *)
(* renamed by order of first appearance), which is what the interface does *)
(* before it looks anything up.  The cache maps keys to the call that      *)
(* filled the entry.  NoCrossTalk: a call is only ever answered from an    *)
(* entry created by a semantically equal call.  With the complete key this *)
(* holds by construction; the instances that drop one component from the   *)
(* key (constant Omit) are refuted by TLC - they show each component is    *)
(* needed, and guard the pools used for the conformance runs against       *)
(* vacuity.                                                                *)
(***************************************************************************)
EXTENDS CacheDefs
CONSTANTS Pool,      \* sequence of calls
          Omit,      \* "none" | "output" | "dims" | "optimize" | "kwargs" | "inputs"
          MaxLen
VARIABLES cache, log
vars == <<cache, log>>

Key(c) == LET k == Canon(c) IN
          [inputs   |-> IF Omit = "inputs" THEN <<>> ELSE k.inputs,
           output   |-> IF Omit = "output" THEN <<>> ELSE k.output,
           dims     |-> IF Omit = "dims" THEN {} ELSE k.dims,
           optimize |-> IF Omit = "optimize" THEN "" ELSE k.optimize,
           kwargs   |-> IF Omit = "kwargs" THEN {} ELSE k.kwargs]

Init == cache = <<>> /\ log = <<>>
Do(i) == /\ Len(log) < MaxLen
         /\ LET k == Key(Pool[i]) IN
            IF k \in DOMAIN cache
            THEN /\ log' = Append(log, [call |-> i, from |-> cache[k]]) /\ UNCHANGED cache
            ELSE /\ cache' = [x \in DOMAIN cache \cup {k} |-> IF x = k THEN i ELSE cache[x]]
                 /\ log' = Append(log, [call |-> i, from |-> i])
Next == \E i \in DOMAIN Pool : Do(i)
Spec == Init /\ [][Next]_vars
NoCrossTalk == \A n \in DOMAIN log : SameMeaning(Pool[log[n].call], Pool[log[n].from])
EmitSeq == Len(log) = MaxLen => PrintT(<<"V", [n \in DOMAIN log |-> log[n].call]>>)
=============================================================================
