SPECIFICATION Spec
CONSTANTS
  Pool <- PoolDef
  Omit = "optimize"
  MaxLen = 3
INVARIANT NoCrossTalk
CHECK_DEADLOCK FALSE
