---- MODULE MC_Cache ----
EXTENDS Cache
Base == [inputs |-> << <<1, 2>>, <<2, 3>>, <<3, 4>> >>, output |-> <<1, 4>>, dims |-> <<2, 3, 2, 3>>,
         optimize |-> "greedy", kwargs |-> {}]
PoolDef == << Base,
              [Base EXCEPT !.output = <<4, 1>>],
              [Base EXCEPT !.dims = <<2, 3, 2, 2>>],
              [Base EXCEPT !.optimize = "optimal"],
              [Base EXCEPT !.kwargs = {<<"strip_exponent", "True">>}],
              [Base EXCEPT !.inputs = << <<7, 5>>, <<5, 9>>, <<9, 8>> >>, !.output = <<7, 8>>,
                           !.dims = (5 :> 3) @@ (7 :> 2) @@ (8 :> 3) @@ (9 :> 2)],     \* relabelled: same meaning
              [Base EXCEPT !.inputs = << <<2, 3>>, <<1, 2>>, <<3, 4>> >>],            \* tensors reordered
              [Base EXCEPT !.inputs = << <<1, 2>>, <<2, 3>>, <<4, 3>> >>],            \* axes of one tensor swapped
              [Base EXCEPT !.dims = <<3, 2, 3, 2>>] >>                              \* sizes swapped between neighbouring labels
Pool7 == 1..7
====
