------------------------------- MODULE BmmJudge -------------------------------
(***************************************************************************)
(* Judge for C11.  Data!Cases[c] = [a, b, out, dim (seq: size of letter k),*)
(*  plan ([has, pure, ta, tb]; has = FALSE if not recorded; ta/tb in        *)
(*  {"none", "perm", "eq"}: how each operand is prepared),                 *)
(*  check_value, value (flat result of the implementation on the canonical *)
(*  integer arrays), refvalue (the harness' evaluator)].                   *)
(* Verdict <<"V", c, clause>>.                                             *)
(***************************************************************************)
EXTENDS Data, Bmm
VARIABLE c
Clause(k) ==
    LET e == [a |-> k.a, b |-> k.b, out |-> k.out] IN
    IF ~WellFormed(e) THEN "equation-malformed"
    ELSE IF k.plan.has /\ k.plan.pure # MustBePure(e, k.dim) THEN "plan-pure-multiplication-decision"
    ELSE IF k.plan.has /\ ~k.plan.pure /\ k.plan.ta = "perm" /\ ~TransposeLegal(k.a, k.dim, SumA(e, k.dim))
        THEN "plan-transposes-an-operand-that-needs-einsum"
    ELSE IF k.plan.has /\ ~k.plan.pure /\ k.plan.tb = "perm" /\ ~TransposeLegal(k.b, k.dim, SumB(e, k.dim))
        THEN "plan-transposes-an-operand-that-needs-einsum"
    ELSE IF ~k.check_value THEN "ok"
    ELSE LET v == Value(e, k.dim) IN
         IF k.refvalue # v THEN "refeval-disagrees-with-spec"
         ELSE IF k.value # v THEN "value"
         ELSE "ok"
Init == c = 1
Next == c <= Len(Cases) /\ PrintT(<<"V", c, Clause(Cases[c])>>) /\ c' = c + 1
=============================================================================
