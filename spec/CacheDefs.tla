------------------------------ MODULE CacheDefs ------------------------------
(***************************************************************************)
(* When do two interface calls mean the same thing (C13)?  Shared by       *)
(* spec/Cache.tla and the trace judge.                                     *)
(***************************************************************************)
EXTENDS Naturals, Sequences, FiniteSets, TLC
Flat(ss) == LET R[k \in 0..Len(ss)] == IF k = 0 THEN <<>> ELSE R[k - 1] \o ss[k] IN R[Len(ss)]
(* rank of label x by first appearance in the flattened inputs (then output) *)
FirstPos(s, x) == CHOOSE k \in DOMAIN s : s[k] = x /\ \A j \in 1..(k - 1) : s[j] # x
Rank(c, x) == LET all == Flat(c.inputs) \o c.output IN
              Cardinality({all[j] : j \in 1..(FirstPos(all, x) - 1)}) + 1
Canon(c) == [inputs   |-> [t \in DOMAIN c.inputs |-> [k \in DOMAIN c.inputs[t] |-> Rank(c, c.inputs[t][k])]],
             output   |-> [k \in DOMAIN c.output |-> Rank(c, c.output[k])],
             dims     |-> {<<Rank(c, x), c.dims[x]>> : x \in {y \in DOMAIN c.dims : \E k \in DOMAIN (Flat(c.inputs) \o c.output) : (Flat(c.inputs) \o c.output)[k] = y}},
             optimize |-> c.optimize,
             kwargs   |-> c.kwargs]
SameMeaning(a, b) == Canon(a) = Canon(b)
=============================================================================
