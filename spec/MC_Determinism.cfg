SPECIFICATION Spec
CONSTANTS
  Keys = {1, 2}
  Digests = {"a", "b"}
  Envs = {1, 2, 3}
CHECK_DEADLOCK FALSE
