SPECIFICATION Spec
CONSTANTS
  Threads <- T1
  Queue <- Q1
  Cost <- CostDef
  Variant = "stateful"
  UseCache = FALSE
  Nest = FALSE
  StoreFirst = FALSE
  MaxHist = FALSE
INVARIANT RightAnswer
CHECK_DEADLOCK FALSE
