------------------------------ MODULE CacheJudge ------------------------------
(***************************************************************************)
(* Judge for C13: Data!Cases[c] = [pool (seq of calls as in Cache.tla),    *)
(* events (seq of [call (pool index), obj (identity class of the returned  *)
(* expression / path object, 0 = not recorded), same_as_uncached (the      *)
(* statement's oracle), value_ok])].  Two calls may share a returned       *)
(* object only if they mean the same contraction with the same options     *)
(* (Cache!SameMeaning).  Verdict <<"V", c, clause, position>>.             *)
(***************************************************************************)
EXTENDS Data, CacheDefs
VARIABLE c
Clause(k) ==
    LET ev == k.events IN
    IF \E n \in DOMAIN ev : ~ev[n].value_ok
        THEN <<"cached-call-gives-wrong-value", CHOOSE n \in DOMAIN ev : ~ev[n].value_ok>>
    ELSE IF \E n \in DOMAIN ev : ~ev[n].same_as_uncached
        THEN <<"cached-differs-from-uncached", CHOOSE n \in DOMAIN ev : ~ev[n].same_as_uncached>>
    ELSE IF \E a, b \in DOMAIN ev : a < b /\ ev[a].obj # 0 /\ ev[a].obj = ev[b].obj
                                     /\ ~SameMeaning(k.pool[ev[a].call], k.pool[ev[b].call])
        THEN <<"two-different-calls-share-a-cached-object",
               CHOOSE b \in DOMAIN ev : \E a \in 1..(b - 1) : ev[a].obj # 0 /\ ev[a].obj = ev[b].obj
                                           /\ ~SameMeaning(k.pool[ev[a].call], k.pool[ev[b].call])>>
    ELSE <<"ok", 0>>
JInit == c = 1
JNext == c <= Len(Cases) /\ LET v == Clause(Cases[c]) IN PrintT(<<"V", c, v[1], v[2]>>) /\ c' = c + 1
=============================================================================
