SPECIFICATION Spec
CONSTANTS
  Pool <- PoolDef
  Fp <- FpDef
  Scores <- ScoresDef
  Overwrite = "yes"
  CacheOnly = TRUE
  HasDisk = TRUE
  UpdateModes <- UM_none
  MaxQueries = 4
INVARIANT AnswersQuery
INVARIANT CacheOnlyNeverRuns
INVARIANT MemCoherent
INVARIANT NoDiskNoFiles
PROPERTY RepeatIsHit
PROPERTY ImprovedMonotone
PROPERTY UpdateRespectsMode
CHECK_DEADLOCK FALSE
