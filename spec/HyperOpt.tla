------------------------------ MODULE HyperOpt ------------------------------
(***************************************************************************)
(* The hyper-optimizer's trial loop (property C08).                        *)
(*                                                                         *)
(* cotengra: HyperOptimizer._gen_results_parallel / _get_and_report_next_  *)
(* future / _search.  Trials are identified by their submission number     *)
(* 1..MaxRepeats.  `Score[i]` is the score trial i will report; Inf for a  *)
(* trial that fails (ComputeScore turns any exception into an inf record). *)
(*                                                                         *)
(*  Submit    next trial handed to the pool; only while fewer than         *)
(*            PreDispatch futures are in flight                            *)
(*  Complete  (environment) a worker finishes some in-flight trial         *)
(*  Poll      the optimizer scans its futures IN SUBMISSION ORDER and      *)
(*            reports the first one that is done; `best` is replaced only  *)
(*            by a strictly smaller score                                  *)
(*  Check     after every report the search loop evaluates its stopping    *)
(*            rule (max_time = seconds | "rate:r" | "equil:n"); when it    *)
(*            fires the futures still in flight are cancelled and never    *)
(*            reported.  The comparison with `best` comes BEFORE the check *)
(*            (CheckFirst = TRUE is the wrong order, kept as a negative    *)
(*            instance: the last recorded trial is then never compared).   *)
(* Serial execution is the instance PreDispatch = 1.                       *)
(***************************************************************************)
EXTENDS Naturals, Sequences, FiniteSets, TLC
CONSTANTS MaxRepeats, PreDispatch, Scores, Inf, MaxFail, MaxHist,
          JIT,  \* TRUE: workers finish one at a time, just before a poll (canonical schedules for replay)
          StopRule,   \* "none" | "equil" (more than Amount reports since the last improvement) | "time" (any moment)
          Amount,
          CheckFirst  \* FALSE = the code; TRUE = stop rule evaluated before the comparison (negative instance)
VARIABLES score,      \* [1..MaxRepeats -> Scores \cup {Inf}], chosen once (the trials' outcomes)
          submitted,  \* number of trials submitted so far
          inflight,   \* sequence of trial ids in submission order, not yet reported
          done,       \* set of in-flight trials whose worker has finished
          reported,   \* sequence of trial ids in the order they were reported
          best,       \* id of the best trial so far, 0 = none
          since,      \* reports since `best` last improved (trials_since_best)
          pending,    \* a report has been made whose stop check is still to come
          stopped,    \* the stop rule fired
          hist        \* history variable (events), for replay on the real code
vars == <<score, submitted, inflight, done, reported, best, since, pending, stopped, hist>>

Ids == 1..MaxRepeats
SeqSet(s) == {s[k] : k \in DOMAIN s}
Log(e) == hist' = IF MaxHist THEN Append(hist, e) ELSE hist

Init == /\ score \in [Ids -> Scores \cup {Inf}]
        /\ Cardinality({i \in Ids : score[i] = Inf}) <= MaxFail
        /\ submitted = 0 /\ inflight = <<>> /\ done = {} /\ reported = <<>> /\ best = 0
        /\ since = 0 /\ pending = FALSE /\ stopped = FALSE
        /\ hist = <<>>

Submit ==
    /\ ~stopped /\ ~pending
    /\ submitted < MaxRepeats
    /\ Len(inflight) < PreDispatch
    /\ submitted' = submitted + 1
    /\ inflight' = Append(inflight, submitted + 1)
    /\ UNCHANGED <<score, done, reported, best, since, pending, stopped>>
    /\ Log(<<"submit", submitted + 1>>)

Complete(i) ==
    /\ i \in SeqSet(inflight) \ done
    /\ (~JIT \/ (done = {} /\ (Len(inflight) = PreDispatch \/ submitted = MaxRepeats)))
    /\ done' = done \cup {i}
    /\ UNCHANGED <<score, submitted, inflight, reported, best, since, pending, stopped>>
    /\ Log(<<"complete", i>>)

(* the scan: first done future in list order *)
FirstDone == LET k == CHOOSE k \in DOMAIN inflight :
                         inflight[k] \in done /\ \A j \in 1..(k - 1) : inflight[j] \notin done
             IN  inflight[k]
Better(i) == score[i] # Inf /\ (best = 0 \/ score[i] < score[best])
Compare(i) == /\ best' = IF Better(i) THEN i ELSE best
              /\ since' = IF Better(i) THEN 0 ELSE since + 1
Poll ==
    /\ ~stopped /\ ~pending
    /\ Len(inflight) = PreDispatch \/ submitted = MaxRepeats   \* only polls when the window is full or all submitted
    /\ done # {}
    /\ LET i == FirstDone IN
       /\ inflight' = SelectSeq(inflight, LAMBDA x : x # i)
       /\ done' = done \ {i}
       /\ reported' = Append(reported, i)     \* the generator records the trial (scores, costs) ...
       /\ IF CheckFirst THEN UNCHANGED <<best, since>> ELSE Compare(i)   \* ... and the loop body compares it
       /\ Log(<<"report", i>>)
    /\ pending' = TRUE
    /\ UNCHANGED <<score, submitted, stopped>>

(* the stopping rule, evaluated once per report *)
Fires(b) == CASE StopRule = "none"  -> FALSE
              [] StopRule = "equil" -> since > Amount
              [] StopRule = "time"  -> b
Check ==
    /\ pending /\ pending' = FALSE
    /\ \E b \in BOOLEAN :
         IF Fires(b)
         THEN /\ stopped' = TRUE /\ inflight' = <<>> /\ done' = {}      \* futures in flight are cancelled
              /\ UNCHANGED <<best, since>> /\ Log(<<"stop", Len(reported)>>)
         ELSE /\ (IF CheckFirst THEN Compare(reported[Len(reported)]) ELSE UNCHANGED <<best, since>>)
              /\ UNCHANGED <<stopped, inflight, done, hist>>
    /\ UNCHANGED <<score, submitted, reported>>

Next == Submit \/ Poll \/ Check \/ \E i \in Ids : Complete(i)
Spec == Init /\ [][Next]_vars /\ WF_vars(Next)

(* ---- properties -------------------------------------------------------- *)
Terminated == stopped \/ (submitted = MaxRepeats /\ inflight = <<>> /\ ~pending)
NoMoreThanRequested == submitted <= MaxRepeats /\ Len(reported) <= MaxRepeats
                       /\ Len(inflight) <= PreDispatch
ReportedOnce == \A a, b \in DOMAIN reported : a # b => reported[a] # reported[b]
Finite == {i \in SeqSet(reported) : score[i] # Inf}
(* best is a reported, non-failed trial with the minimum score, and among equal scores
   the one reported first *)
BestIsMin ==
    IF Finite = {} THEN best = 0
    ELSE /\ best \in Finite
         /\ \A i \in Finite : score[best] <= score[i]
         /\ \A k \in DOMAIN reported :
               (reported[k] \in Finite /\ score[reported[k]] = score[best])
               => \E j \in 1..k : reported[j] = best
BestAtEnd == Terminated => BestIsMin
FailuresIsolated == best # 0 => score[best] # Inf
AllReported == (Terminated /\ ~stopped) => SeqSet(reported) = Ids
(* the loop stops only when its rule says so, and never runs on once it does *)
StopJustified == (stopped /\ StopRule = "equil") => since > Amount
NoOverrun     == (StopRule = "equil" /\ since > Amount) => (pending \/ stopped)
NeverStops    == StopRule = "none" => ~stopped
(* what was cancelled is never reported: nothing happens after the stop *)
StoppedIsFinal == [][stopped => UNCHANGED <<reported, best, submitted>>]_vars
Progress == <>Terminated
EmitHist == Terminated => PrintT(<<"V", score, hist>>)
=============================================================================
