------------------------------ MODULE HyperOpt ------------------------------
(***************************************************************************)
(* The hyper-optimizer's trial loop (property C08).                        *)
(*                                                                         *)
(* cotengra: HyperOptimizer._gen_results_parallel / _get_and_report_next_  *)
(* future / _search.  Trials are identified by their submission number     *)
(* 1..MaxRepeats.  `Score[i]` is the score trial i will report; Inf for a  *)
(* trial that fails (ComputeScore turns any exception into an inf record). *)
(*                                                                         *)
(*  Submit    next trial handed to the pool; only while fewer than         *)
(*            PreDispatch futures are in flight                            *)
(*  Complete  (environment) a worker finishes some in-flight trial         *)
(*  Poll      the optimizer scans its futures IN SUBMISSION ORDER and      *)
(*            reports the first one that is done; `best` is replaced only  *)
(*            by a strictly smaller score                                  *)
(* Serial execution is the instance PreDispatch = 1.                       *)
(***************************************************************************)
EXTENDS Naturals, Sequences, FiniteSets, TLC
CONSTANTS MaxRepeats, PreDispatch, Scores, Inf, MaxFail, MaxHist,
          JIT   \* TRUE: workers finish one at a time, just before a poll (canonical schedules for replay)
VARIABLES score,      \* [1..MaxRepeats -> Scores \cup {Inf}], chosen once (the trials' outcomes)
          submitted,  \* number of trials submitted so far
          inflight,   \* sequence of trial ids in submission order, not yet reported
          done,       \* set of in-flight trials whose worker has finished
          reported,   \* sequence of trial ids in the order they were reported
          best,       \* id of the best trial so far, 0 = none
          hist        \* history variable (events), for replay on the real code
vars == <<score, submitted, inflight, done, reported, best, hist>>

Ids == 1..MaxRepeats
SeqSet(s) == {s[k] : k \in DOMAIN s}
Log(e) == hist' = IF MaxHist THEN Append(hist, e) ELSE hist

Init == /\ score \in [Ids -> Scores \cup {Inf}]
        /\ Cardinality({i \in Ids : score[i] = Inf}) <= MaxFail
        /\ submitted = 0 /\ inflight = <<>> /\ done = {} /\ reported = <<>> /\ best = 0
        /\ hist = <<>>

Submit ==
    /\ submitted < MaxRepeats
    /\ Len(inflight) < PreDispatch
    /\ submitted' = submitted + 1
    /\ inflight' = Append(inflight, submitted + 1)
    /\ UNCHANGED <<score, done, reported, best>>
    /\ Log(<<"submit", submitted + 1>>)

Complete(i) ==
    /\ i \in SeqSet(inflight) \ done
    /\ (~JIT \/ (done = {} /\ (Len(inflight) = PreDispatch \/ submitted = MaxRepeats)))
    /\ done' = done \cup {i}
    /\ UNCHANGED <<score, submitted, inflight, reported, best>>
    /\ Log(<<"complete", i>>)

(* the scan: first done future in list order *)
FirstDone == LET k == CHOOSE k \in DOMAIN inflight :
                         inflight[k] \in done /\ \A j \in 1..(k - 1) : inflight[j] \notin done
             IN  inflight[k]
Better(i) == score[i] # Inf /\ (best = 0 \/ score[i] < score[best])
Poll ==
    /\ Len(inflight) = PreDispatch \/ submitted = MaxRepeats   \* only polls when the window is full or all submitted
    /\ done # {}
    /\ LET i == FirstDone IN
       /\ inflight' = SelectSeq(inflight, LAMBDA x : x # i)
       /\ done' = done \ {i}
       /\ reported' = Append(reported, i)
       /\ best' = IF Better(i) THEN i ELSE best
       /\ Log(<<"report", i>>)
    /\ UNCHANGED <<score, submitted>>

Next == Submit \/ Poll \/ \E i \in Ids : Complete(i)
Spec == Init /\ [][Next]_vars /\ WF_vars(Next)

(* ---- properties -------------------------------------------------------- *)
Terminated == submitted = MaxRepeats /\ inflight = <<>>
NoMoreThanRequested == submitted <= MaxRepeats /\ Len(reported) <= MaxRepeats
                       /\ Len(inflight) <= PreDispatch
ReportedOnce == \A a, b \in DOMAIN reported : a # b => reported[a] # reported[b]
Finite == {i \in SeqSet(reported) : score[i] # Inf}
(* best is a reported, non-failed trial with the minimum score, and among equal scores
   the one reported first *)
BestIsMin ==
    IF Finite = {} THEN best = 0
    ELSE /\ best \in Finite
         /\ \A i \in Finite : score[best] <= score[i]
         /\ \A k \in DOMAIN reported :
               (reported[k] \in Finite /\ score[reported[k]] = score[best])
               => \E j \in 1..k : reported[j] = best
FailuresIsolated == best # 0 => score[best] # Inf
AllReported == Terminated => SeqSet(reported) = Ids
Progress == <>Terminated
EmitHist == Terminated => PrintT(<<"V", score, hist>>)
=============================================================================
