SPECIFICATION Spec
CONSTANTS
  Pool <- PoolDef
  Omit = "dims"
  MaxLen = 3
INVARIANT NoCrossTalk
CHECK_DEADLOCK FALSE
