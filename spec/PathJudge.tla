----------------------------- MODULE PathJudge -----------------------------
(***************************************************************************)
(* Judge for paths and conversions (C05, C10).  Data!Cases[c].kind is      *)
(*  "linear"   [N, path]              returned linear path is well formed  *)
(*  "linear_valid" [N, path]         positions exist at each step (an explicit edge path of a disconnected network *)
(*                                   legitimately leaves pieces uncontracted at path level)                      *)
(*  "ssa"      [N, path]              returned ssa path is well formed     *)
(*  "tree"     [N, ch]                children (seq <<p,l,r>>) complete    *)
(*  "lin2ssa"  [N, path, got]         got = LinToSsa(path)  (steps as sets)*)
(*  "ssa2lin"  [N, path, got]         got = SsaToLin(path)                 *)
(*  "emit_lin" [N, ch, path]          path emitted from tree ch: legal and *)
(*  "emit_ssa" [N, ch, path]          denotes exactly the nodes of ch      *)
(*  "from_lin" [N, path, ch]          tree built from a path has exactly   *)
(*  "from_ssa" [N, path, ch]          the nodes the path denotes           *)
(*  "from_ssa_multi" / "from_lin_multi": multi-way steps: path nodes \subseteq tree  *)
(*  "subtree"  [N, ch, node, size, leaves, branches]  get_subtree result is a frontier   *)
(*  "edge"     [inputs, epath, got]   got = EdgeToSsa(inputs, epath)       *)
(* Nodes are sets of 0-based leaf ids.  Verdict <<"V", c, clause>>.        *)
(***************************************************************************)
EXTENDS Data, Paths
VARIABLE c

Nodes(k)   == {k.ch[j][1] : j \in DOMAIN k.ch}
CompleteCh(k) ==
    /\ Cardinality(Nodes(k)) = Len(k.ch) /\ Len(k.ch) = k.N - 1
    /\ (k.N >= 2 => (0..(k.N - 1)) \in Nodes(k))
    /\ \A j \in DOMAIN k.ch :
          LET p == k.ch[j][1]  l == k.ch[j][2]  r == k.ch[j][3] IN
          /\ l # {} /\ r # {} /\ l \cap r = {} /\ l \cup r = p /\ p \subseteq 0..(k.N - 1)
          /\ (Cardinality(l) > 1 => l \in Nodes(k)) /\ (Cardinality(r) > 1 => r \in Nodes(k))

Clause(k) ==
    CASE k.kind = "linear" ->
            LET r == RunLinear(k.N, k.path) IN
            IF ~r[1] THEN "position-does-not-exist-or-repeated"
            ELSE IF Len(r[2]) # 1 THEN "does-not-end-in-single-tensor"
            ELSE IF r[2][1] # 0..(k.N - 1) THEN "not-all-inputs-consumed" ELSE "ok"
      [] k.kind = "linear_valid" ->      \* every step names existing, distinct positions (completeness not demanded)
            IF RunLinear(k.N, k.path)[1] THEN "ok" ELSE "position-does-not-exist-or-repeated"
      [] k.kind = "ssa" ->
            LET r == RunSsa(k.N, k.path) IN
            IF ~r[1] THEN "id-not-alive-or-repeated"
            ELSE IF Cardinality(DOMAIN r[2]) # 1 THEN "does-not-end-in-single-tensor"
            ELSE IF \E i \in DOMAIN r[2] : r[2][i] # 0..(k.N - 1) THEN "not-all-inputs-consumed" ELSE "ok"
      [] k.kind = "tree" -> IF CompleteCh(k) THEN "ok" ELSE "tree-not-complete"
      [] k.kind = "lin2ssa" ->
            IF ~WellFormedLin(k.N, k.path) THEN "input-path-malformed"
            ELSE IF AsSets(k.got) # LinToSsa(k.N, k.path) THEN "lin2ssa-differs" ELSE "ok"
      [] k.kind = "ssa2lin" ->
            IF ~WellFormedSsa(k.N, k.path) THEN "input-path-malformed"
            ELSE IF AsSets(k.got) # SsaToLin(k.N, k.path) THEN "ssa2lin-differs" ELSE "ok"
      [] k.kind = "emit_lin" ->
            IF ~CompleteCh(k) THEN "tree-not-complete"
            ELSE IF ~WellFormedLin(k.N, k.path) THEN "emitted-path-malformed"
            ELSE IF TreeOfLin(k.N, k.path) # Nodes(k) THEN "emitted-path-denotes-other-tree" ELSE "ok"
      [] k.kind = "emit_ssa" ->
            IF ~CompleteCh(k) THEN "tree-not-complete"
            ELSE IF ~WellFormedSsa(k.N, k.path) THEN "emitted-path-malformed"
            ELSE IF TreeOfSsa(k.N, k.path) # Nodes(k) THEN "emitted-path-denotes-other-tree" ELSE "ok"
      [] k.kind = "from_lin" ->
            IF ~WellFormedLin(k.N, k.path) THEN "input-path-malformed"
            ELSE IF ~CompleteCh(k) THEN "tree-not-complete"
            ELSE IF TreeOfLin(k.N, k.path) # Nodes(k) THEN "tree-differs-from-path" ELSE "ok"
      [] k.kind = "from_ssa" ->
            IF ~WellFormedSsa(k.N, k.path) THEN "input-path-malformed"
            ELSE IF ~CompleteCh(k) THEN "tree-not-complete"
            ELSE IF TreeOfSsa(k.N, k.path) # Nodes(k) THEN "tree-differs-from-path" ELSE "ok"
      [] k.kind = "from_lin_multi" ->      \* linear path with multi-way steps: the tree refines the path
            IF ~WellFormedLin(k.N, k.path) THEN "input-path-malformed"
            ELSE IF ~CompleteCh(k) THEN "tree-not-complete"
            ELSE IF ~(TreeOfLin(k.N, k.path) \subseteq Nodes(k)) THEN "tree-differs-from-path" ELSE "ok"
      [] k.kind = "from_ssa_multi" ->      \* steps may merge >= 3 tensors: the tree refines the path
            IF ~WellFormedSsa(k.N, k.path) THEN "input-path-malformed"
            ELSE IF ~CompleteCh(k) THEN "tree-not-complete"
            ELSE IF ~(TreeOfSsa(k.N, k.path) \subseteq Nodes(k)) THEN "tree-differs-from-path" ELSE "ok"
      [] k.kind = "subtree" ->             \* get_subtree(node, size): a frontier of tree nodes below `node` + the branches between
            IF ~CompleteCh(k) THEN "tree-not-complete"
            ELSE IF UNION k.leaves # k.node \/ \E a, b \in k.leaves : a # b /\ a \cap b # {} THEN "subtree-leaves-do-not-partition-node"
            ELSE IF \E a \in k.leaves : Cardinality(a) > 1 /\ a \notin Nodes(k) THEN "subtree-leaf-is-not-a-tree-node"
            ELSE IF Cardinality(k.leaves) > k.size /\ k.size >= 1 THEN "subtree-larger-than-requested"
            ELSE IF k.branches # {q \in Nodes(k) : q \subseteq k.node /\ \E a \in k.leaves : a \subseteq q /\ a # q}
                 THEN "subtree-branches-differ"
            ELSE IF Cardinality(k.leaves) < k.size /\ \E a \in k.leaves : Cardinality(a) > 1 THEN "subtree-stopped-early"
            ELSE "ok"
      [] k.kind = "edge" ->
            IF AsSets(k.got) # EdgeToSsa(k.inputs, k.epath) THEN "edge-path-differs" ELSE "ok"
      [] OTHER -> "unknown-kind"

Init == c = 1
Next == c <= Len(Cases) /\ PrintT(<<"V", c, Clause(Cases[c])>>) /\ c' = c + 1
=============================================================================
