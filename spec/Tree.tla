-------------------------------- MODULE Tree --------------------------------
(***************************************************************************)
(* The contraction tree as a state machine (properties C02, C04, C06).     *)
(*                                                                         *)
(*   children : function internal node -> <<left, right>>                  *)
(*   sliced   : sequence of [ind, project] in the canonical order the      *)
(*              implementation keeps (output indices first, then by name)  *)
(*   hist     : history variable - the operations performed so far; it is  *)
(*              what the harness replays on the real object                *)
(*                                                                         *)
(* One action per public transformation of cotengra's ContractionTree:     *)
(*   Reconfigure  subtree_reconfigure(_forest): the branches between a     *)
(*                node and a frontier below it are replaced by ANY binary  *)
(*                tree over the same frontier                              *)
(*   Rotate       the local move of simulated_anneal / parallel_temper     *)
(*   RemoveInd / Project / RestoreInd / UnsliceAll                         *)
(*   Query(kind)  contract, contract_stats, get_path, print, sort/reset    *)
(*                contraction indices, copy: must not change the abstract  *)
(*                state at all                                             *)
(* The value the tree denotes, Einsum(Net, ProjFix(sliced)), mentions      *)
(* neither `children` nor the sliced-but-not-projected indices: that no    *)
(* transformation may change the value (C02) is therefore the statement    *)
(* that the implementation refines this machine.                           *)
(***************************************************************************)
EXTENDS TreeDefs
CONSTANTS Nets, MaxHist, QueryKinds
VARIABLES net, children, sliced, hist
vars == <<net, children, sliced, hist>>
Net == net   \* the network never changes; it is a variable so that one run covers many networks

Nodes0 == {{t} : t \in Leaves(Net)}

(* all full binary trees (as children functions) over a set F of disjoint nodes *)
RECURSIVE Trees(_)
Trees(F) ==
    IF Cardinality(F) = 1 THEN {<<>>}
    ELSE LET m == CHOOSE x \in F : \A y \in F : (CHOOSE a \in x : \A b \in x : a <= b)
                                                 <= (CHOOSE a \in y : \A b \in y : a <= b)
         IN UNION {
              {ta @@ tb @@ ((UNION F) :> <<UNION A, UNION (F \ A)>>) :
                   ta \in Trees(A), tb \in Trees(F \ A)}
              : A \in {A \in SUBSET F : m \in A /\ A # F} }

SlicedAfterRemove(s, ix, v) == SlicedAfterRemoveN(net, s, ix, v)
IsCanon(s)                  == IsCanonN(net, s)

(* MaxHist = 0: hist stays empty and the state is just <<children, sliced>> (model-checking
   instances); MaxHist = D > 0: behaviours are cut after D operations (history generation) *)
Log(e) == hist' = IF Len(hist) < MaxHist + 1 THEN Append(hist, e) ELSE hist
Bounded == MaxHist = 0 \/ Len(hist) < MaxHist + 1

(* descendants of p (internal nodes strictly below or equal) *)
Below(p) == {q \in DOMAIN children : q \subseteq p}
(* frontiers: antichains of nodes below p that cover p *)
IsNode(n) == n \in DOMAIN children \/ Cardinality(n) = 1
RECURSIVE Frontiers(_, _)
Frontiers(p, k) ==     \* sets of <= k nodes partitioning p, each a node of the tree
    IF Cardinality(p) = 1 \/ k <= 1 THEN {{p}}
    ELSE {{p}} \cup UNION {
            {fl \cup fr : fl \in Frontiers(children[p][1], a), fr \in Frontiers(children[p][2], k - a)}
            : a \in 1..(k - 1)}

Init == /\ net \in Nets
        /\ children \in Trees({{t} : t \in 1..Len(net.inputs)})
        /\ sliced = <<>>
        /\ hist = IF MaxHist > 0 THEN <<[op |-> "init", net |-> net.id, ch |-> children]>> ELSE <<>>

Reconfigure(p, F) ==
    /\ Bounded /\ Cardinality(F) >= 2
    /\ LET inner == {q \in Below(p) : \E f \in F : f \subseteq q /\ f # q} IN
       \E t \in Trees(F) :
          children' = [q \in (DOMAIN children \ inner) \cup DOMAIN t |->
                          IF q \in DOMAIN t THEN t[q] ELSE children[q]]
    /\ UNCHANGED <<net, sliced>>
    /\ Log([op |-> "reconfigure"])

Rotate(p, side, which) ==
    /\ Bounded
    /\ LET c == children[p][side]  d == children[p][3 - side] IN
       /\ c \in DOMAIN children
       /\ LET a == children[c][which]  b == children[c][3 - which] IN
          \* (a b) d  ->  a (b d)
          children' = [q \in (DOMAIN children \ {c}) \cup {b \cup d} |->
                          IF q = p THEN <<a, b \cup d>>
                          ELSE IF q = b \cup d THEN <<b, d>> ELSE children[q]]
    /\ UNCHANGED <<net, sliced>>
    /\ Log([op |-> "rotate"])

RemoveInd(ix) ==
    /\ Bounded /\ ix \notin SlSet(sliced)
    /\ sliced' = SlicedAfterRemove(sliced, ix, -1)
    /\ UNCHANGED <<net, children>>
    /\ Log([op |-> "remove_ind", ix |-> ix])

Project(ix, v) ==
    /\ Bounded /\ ix \notin SlSet(sliced)
    /\ sliced' = SlicedAfterRemove(sliced, ix, v)
    /\ UNCHANGED <<net, children>>
    /\ Log([op |-> "project", ix |-> ix, v |-> v])

RestoreInd(ix) ==
    /\ Bounded /\ ix \in SlSet(sliced)
    /\ sliced' = SlicedAfterRestore(sliced, ix)
    /\ UNCHANGED <<net, children>>
    /\ Log([op |-> "restore_ind", ix |-> ix])

(* tree.slice(...): some further indices get sliced, the tree is untouched *)
RECURSIVE InsertAll(_, _)
InsertAll(s, X) == IF X = {} THEN s
                   ELSE LET ix == CHOOSE x \in X : TRUE
                        IN  InsertAll(SlicedAfterRemove(s, ix, -1), X \ {ix})
Slice(X) ==
    /\ Bounded /\ X # {} /\ X \cap SlSet(sliced) = {}
    /\ sliced' = InsertAll(sliced, X)
    /\ UNCHANGED <<net, children>>
    /\ Log([op |-> "slice"])

UnsliceAll ==
    /\ Bounded /\ sliced # <<>>
    /\ sliced' = <<>>
    /\ UNCHANGED <<net, children>>
    /\ Log([op |-> "unslice_all"])

Query(kind) ==
    /\ Bounded
    /\ UNCHANGED <<net, children, sliced>>
    /\ Log([op |-> kind])

Next ==
    \/ \E p \in DOMAIN children : \E F \in Frontiers(p, 3) : Reconfigure(p, F)
    \/ \E p \in DOMAIN children : \E side \in {1, 2} : \E which \in {1, 2} : Rotate(p, side, which)
    \/ \E ix \in Ixs(Net) : RemoveInd(ix) \/ RestoreInd(ix)
    \/ \E ix \in Ixs(Net) : \E v \in 0..(Net.dim[ix] - 1) : Project(ix, v)
    \/ UnsliceAll
    \/ \E X \in SUBSET (Ixs(Net) \ SlSet(sliced)) : Cardinality(X) \in 1..2 /\ Slice(X)
    \/ \E k \in QueryKinds : Query(k)

Spec == Init /\ [][Next]_vars

(* ---------------- design-level properties ------------------------------ *)
Sl == SlSet(sliced)
CompleteInv == Complete(Net, children)
CanonInv    == IsCanon(sliced) /\ Cardinality(Sl) = Len(sliced)

(* The value denoted by a state.  It is a function of Net and of the projected indices only;
   `children` and the sliced-but-not-projected indices do not occur in it, so every action
   other than Project / RestoreInd-of-a-projected-index / UnsliceAll leaves it unchanged by
   construction.  The conformance checks (TreeHistoryJudge) hold the implementation to this. *)
Denotes == Einsum(Net, ProjFix(sliced))

(* the theorems that make incremental cost updates (the //d rule) exact *)
SizeFactor ==
    \A p \in DOMAIN children \cup Nodes0 : \A ix \in Ixs(Net) \ Sl :
        Size(Net, p, Sl) =
           Size(Net, p, Sl \cup {ix}) * (IF ix \in Legs(Net, p, Sl) THEN Net.dim[ix] ELSE 1)
FlopsFactor ==
    \A p \in DOMAIN children : \A ix \in Ixs(Net) \ Sl :
        NodeFlops(Net, children, Sl, p) =
           NodeFlops(Net, children, Sl \cup {ix}, p)
             * (IF ix \in NodeInvolved(Net, children, Sl, p) THEN Net.dim[ix] ELSE 1)
LegsShape ==
    /\ Legs(Net, Leaves(Net), Sl) = SeqRange(Net.output) \ Sl
    /\ \A p \in DOMAIN children :
          /\ Legs(Net, p, Sl) \subseteq NodeInvolved(Net, children, Sl, p)
          /\ Size(Net, p, Sl) <= NodeFlops(Net, children, Sl, p)
(* the implementation's count rule coincides with the survival definition *)
CountRuleInv ==
    \A p \in DOMAIN children \cup Nodes0 : \A ix \in Ixs(Net) :
        CountRule(Net, p, ix) <=> Survives(Net, p, ix, {})
(* history generation: print every complete history once it has MaxHist operations *)
EmitHist == (MaxHist > 0 /\ Len(hist) = MaxHist + 1) => PrintT(<<"V", hist>>)
=============================================================================
