---------------------------- MODULE MagnitudeJudge ----------------------------
(***************************************************************************)
(* Trace judge for C19: the arrays a stripped contraction really hands to  *)
(* its pairwise kernels.  Data!Cases[c] = [bound, steps (seq of [l, r, out *)
(* (log10 of the largest absolute entry of each operand and of the raw     *)
(* result, in 1/100 decade, rounded), lleaf, rleaf (operand is an input    *)
(* tensor)])].  Inputs may carry up to `bound`; every intermediate must    *)
(* re-enter with magnitude 0 (it was normalised), which keeps every raw    *)
(* product within 2 * bound + slack.  Verdict <<"V", c, clause, step>>.    *)
(***************************************************************************)
EXTENDS Data, Integers, Sequences
VARIABLE c
Abs(x) == IF x < 0 THEN -x ELSE x
Slack == 400
StepClause(k, s) ==
    IF ~s.lleaf /\ Abs(s.l) > 1 THEN "intermediate-operand-not-normalised"
    ELSE IF ~s.rleaf /\ Abs(s.r) > 1 THEN "intermediate-operand-not-normalised"
    ELSE IF Abs(s.l) > k.bound + Slack \/ Abs(s.r) > k.bound + Slack THEN "operand-magnitude-out-of-bounds"
    ELSE IF Abs(s.out) > 2 * k.bound + Slack THEN "product-magnitude-out-of-range"
    ELSE "ok"
Clause(k) ==
    IF \A n \in DOMAIN k.steps : StepClause(k, k.steps[n]) = "ok" THEN <<"ok", 0>>
    ELSE LET n == CHOOSE n \in DOMAIN k.steps : StepClause(k, k.steps[n]) # "ok" IN <<StepClause(k, k.steps[n]), n>>
Init == c = 1
Next == c <= Len(Cases) /\ LET v == Clause(Cases[c]) IN PrintT(<<"V", c, v[1], v[2]>>) /\ c' = c + 1
=============================================================================
