SPECIFICATION Spec
CONSTANTS
  Letters = {1, 2, 3}
  MaxRank = 3
INVARIANT Partition
INVARIANT Emit
CHECK_DEADLOCK FALSE
