SPECIFICATION Spec
CONSTANTS
  Pool <- PoolDef
  Omit = "inputs"
  MaxLen = 3
INVARIANT NoCrossTalk
CHECK_DEADLOCK FALSE
