SPECIFICATION Spec
CONSTANTS
  Threads <- T3
  Queue <- Q3
  Cost <- CostDef
  Variant = "perthread"
  UseCache = TRUE
  Nest = TRUE
  StoreFirst = FALSE
  MaxHist = FALSE
INVARIANT RightAnswer
CHECK_DEADLOCK FALSE
