SPECIFICATION Spec
CONSTANT MaxN = 5
INVARIANT RoundTrip
INVARIANT MachineAgrees
CHECK_DEADLOCK FALSE
