----------------------------- MODULE HGSimDefs -----------------------------
(***************************************************************************)
(* The hypergraph simulator of cotengra/hypergraph.py (HyperGraph) as the  *)
(* data structure it is: two maps kept by LOCAL updates,                   *)
(*     nd : node id -> set of indices on the node                          *)
(*     ed : index   -> set of nodes carrying it  (no entry when empty)     *)
(* and the three mutators remove_node / add_node / contract written the    *)
(* way the code performs them (contract = remove, remove, filter by "is    *)
(* the index still somewhere, or in the output", add).  Whether these      *)
(* local rules compute the GLOBAL definition (Network!Legs of the merged   *)
(* leaf set) is what HGSim's invariants ask of TLC; whether the code       *)
(* follows the rules is what HGSimJudge asks of recorded executions.       *)
(* A state is a record [nd, ed, ctr]; ctr is the id counter next_node      *)
(* advances (ids here are 1-based: code id + 1).                           *)
(***************************************************************************)
EXTENDS Network

HGEdgesOf(nd) ==
    LET ixs == UNION {nd[k] : k \in DOMAIN nd}
    IN  [ix \in ixs |-> {k \in DOMAIN nd : ix \in nd[k]}]

HGInit(net) ==
    LET nd == [t \in Leaves(net) |-> OnT(net, t)]
    IN  [nd |-> nd, ed |-> HGEdgesOf(nd), ctr |-> Len(net.inputs)]


(* remove_node(i): pop the node, strip it from each of its edges, delete an edge left empty *)
HGRemove(st, i) ==
    LET inds == st.nd[i]
        ed1  == [ix \in DOMAIN st.ed |-> IF ix \in inds THEN st.ed[ix] \ {i} ELSE st.ed[ix]]
    IN  [st EXCEPT !.nd = Restrict(st.nd, DOMAIN st.nd \ {i}),
                   !.ed = Restrict(ed1, {ix \in DOMAIN ed1 : ed1[ix] # {}})]

(* next_node(): advance the counter, skipping ids in use *)
HGNextId(st) == CHOOSE k \in (st.ctr + 1)..(st.ctr + 1 + Cardinality(DOMAIN st.nd)) :
                    /\ k \notin DOMAIN st.nd
                    /\ \A m \in (st.ctr + 1)..(k - 1) : m \in DOMAIN st.nd

(* add_node(inds, node): append to each edge, creating the edge when it vanished (an output index) *)
HGAdd(st, inds, id) ==
    [st EXCEPT !.nd = (id :> inds) @@ st.nd,
               !.ed = [ix \in DOMAIN st.ed \cup inds |->
                          IF ix \in inds THEN (IF ix \in DOMAIN st.ed THEN st.ed[ix] ELSE {}) \cup {id}
                          ELSE st.ed[ix]]]

(* contract(i, j, node=given): given = 0 means "generate an id" *)
(* keepOut = TRUE is the code's rule; FALSE (the output clause forgotten) exists for the negative instance only *)
HGContractR(net, st, i, j, given, keepOut) ==
    LET s1   == HGRemove(HGRemove(st, i), j)
        inds == {ix \in st.nd[i] \cup st.nd[j] : ix \in DOMAIN s1.ed \/ (keepOut /\ InOut(net, ix))}
        id   == IF given = 0 THEN HGNextId(s1) ELSE given
        s2   == IF given = 0 THEN [s1 EXCEPT !.ctr = id] ELSE s1
    IN  [st |-> HGAdd(s2, inds, id), id |-> id]
HGContract(net, st, i, j, given) == HGContractR(net, st, i, j, given, TRUE)

(* queries *)
HGPredict(net, st, S) ==        \* compute_contracted_inds(nodes)
    {ix \in UNION {st.nd[k] : k \in S} : (st.ed[ix] \ S) # {} \/ InOut(net, ix)}
HGNeighbors(st, i) == (UNION {st.ed[ix] : ix \in st.nd[i]}) \ {i}
HGNodeSize(net, st, i) == Prod(net, st.nd[i])
HGPairCost(net, st, i, j) == Prod(net, st.nd[i] \cup st.nd[j])
HGBond(net, st, i, j) == Prod(net, st.nd[i] \cap st.nd[j])
Min2(a, b) == IF a <= b THEN a ELSE b
(* candidate_contraction_size(i, j, chi): the new node's indices grouped by the set of nodes each will then join
   (j renamed to i); every group capped at chi; chi = 0 stands for "no cap" *)
HGCandidate(net, st, i, j, chi) ==
    LET new  == HGPredict(net, st, {i, j})
        nb(ix) == {IF k = j THEN i ELSE k : k \in st.ed[ix]}
        groups == {{iy \in new : nb(iy) = nb(ix)} : ix \in new}
    IN  IF chi = 0 THEN Prod(net, new)
        ELSE FoldSet(LAMBDA g, acc : acc * Min2(chi, Prod(net, g)), 1, groups)

AsPairs(f) == {<<k, f[k]>> : k \in DOMAIN f}
=============================================================================
