---------------------------- MODULE DiskCrashJudge ----------------------------
(***************************************************************************)
(* Judge for the on-disk cache writer (C15).  Two kinds of case:           *)
(*  "syscalls": [events] the writer's system calls on the cache directory, *)
(*     as recorded by strace: seq of [op ("mkdir" | "open" | "write" |     *)
(*     "close" | "rename" | "unlink"), name ("final" | "tmp" | "dir"),     *)
(*     trunc (BOOLEAN), to ("final" | "tmp" | "")].  The sequence must be  *)
(*     a behaviour of the "temprename" protocol of spec/DiskCrash.tla (the *)
(*     protocol for which NeverPoisoned was model-checked): the final name *)
(*     is never opened for writing; it only ever appears as the target of  *)
(*     a rename of a closed, completely written temporary.                 *)
(*  "crash": [plan, hasold, final ("absent" | "old" | "new" | "partial"),  *)
(*     first, second (reader outcomes of two successive fresh processes:   *)
(*     "old" | "new" | "searched" | "error"), other (outcome for an entry  *)
(*     stored before the crash: "hit" | "searched" | "error"), other_auto  *)
(*     (the same for a process that lets the library detect the directory  *)
(*     layout)]                                                            *)
(* Verdict <<"V", c, clause>>.                                             *)
(***************************************************************************)
EXTENDS Data, Naturals, FiniteSets
VARIABLE c

RECURSIVE Walk(_, _, _)
(* state: "idle" | "tmpopen" | "tmpclosed"; returns clause *)
Walk(ev, k, st) ==
    IF k > Len(ev) THEN (IF st = "idle" THEN "ok" ELSE "temporary-never-renamed")
    ELSE LET e == ev[k] IN
         IF e.op = "mkdir" THEN Walk(ev, k + 1, st)
         ELSE IF e.op = "open" /\ e.name = "final" THEN "final-name-opened-for-writing"
         ELSE IF e.op = "open" /\ e.name = "tmp" THEN
              (IF st # "idle" THEN "second-temporary-before-rename" ELSE Walk(ev, k + 1, "tmpopen"))
         ELSE IF e.op = "write" /\ e.name = "tmp" THEN
              (IF st # "tmpopen" THEN "write-to-closed-temporary" ELSE Walk(ev, k + 1, st))
         ELSE IF e.op = "write" /\ e.name = "final" THEN "final-name-written-in-place"
         ELSE IF e.op = "close" /\ e.name = "tmp" THEN Walk(ev, k + 1, "tmpclosed")
         ELSE IF e.op = "rename" /\ e.name = "tmp" /\ e.to = "final" THEN
              (IF st # "tmpclosed" THEN "rename-of-unclosed-temporary" ELSE Walk(ev, k + 1, "idle"))
         ELSE IF e.op = "rename" THEN "unexpected-rename"
         ELSE Walk(ev, k + 1, st)

Clause(k) ==
    IF k.kind = "syscalls" THEN
        (IF ~\E j \in DOMAIN k.events : k.events[j].op = "rename" \/ k.events[j].op = "open"
         THEN "no-write-observed" ELSE Walk(k.events, 1, "idle"))
    ELSE \* crash
        IF k.first = "error" /\ k.second = "error" THEN "later-runs-fail-permanently"
        ELSE IF k.first = "error" THEN "later-run-fails"
        ELSE IF k.hasold /\ k.final = "absent" THEN "entry-stored-before-the-crash-lost"
        ELSE IF k.final = "partial" /\ k.first # "searched" THEN "tree-built-from-partial-entry"
        ELSE IF k.final = "absent" /\ k.first # "searched" THEN "absent-entry-not-searched"
        \* the entry stored before the crash is still in place after it: it remains readable, the later runs use it
        ELSE IF k.final = "old" /\ (k.first # "old" \/ k.second # "old") THEN "old-entry-lost"
        ELSE IF k.final = "new" /\ k.first \notin {"new", "searched"} THEN "new-entry-not-used"
        ELSE IF k.other # "hit" THEN "entry-stored-before-the-crash-unreadable"
        ELSE IF k.other_auto # "hit" THEN "entry-stored-before-the-crash-unreadable-with-default-layout-detection"
        ELSE "ok"

Init == c = 1
Next == c <= Len(Cases) /\ PrintT(<<"V", c, Clause(Cases[c])>>) /\ c' = c + 1
=============================================================================
