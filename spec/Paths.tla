------------------------------- MODULE Paths -------------------------------
(***************************************************************************)
(* Contraction paths as programs for a tiny abstract machine (C05, C10).   *)
(*                                                                         *)
(* Linear path: the machine holds a list `live` of tensors (sets of leaf   *)
(* ids 0..N-1); a step names positions in that list (0-based, as in the    *)
(* code), removes them and appends their union.  SSA path: every tensor    *)
(* ever created has its own id (leaves 0..N-1, then N, N+1, ...); a step   *)
(* names ids that are still alive.  Steps may name one tensor (a recorded  *)
(* single-tensor simplification) or more than two (a multi-way step).      *)
(***************************************************************************)
EXTENDS Naturals, Sequences, FiniteSets, FiniteSetsExt, Functions, TLC

SeqRng(s)     == {s[k] : k \in DOMAIN s}
NoDup(s)      == \A a, b \in DOMAIN s : a # b => s[a] # s[b]
RemovePos(s, P) ==      \* s without the (1-based) positions in P, order kept
    LET keep == {k \in DOMAIN s : k \notin P} IN
    [n \in 1..Cardinality(keep) |->
        s[CHOOSE k \in keep : Cardinality({m \in keep : m < k}) = n - 1]]

(* ---- linear machine --------------------------------------------------- *)
LinInit(N)         == [k \in 1..N |-> {k - 1}]
LinEnabled(live, con) ==
    /\ Len(con) >= 1 /\ NoDup(con)
    /\ \A k \in DOMAIN con : con[k] + 1 \in DOMAIN live
LinStep(live, con) ==
    LET P == {con[k] + 1 : k \in DOMAIN con} IN
    Append(RemovePos(live, P), UNION {live[p] : p \in P})

(* run a whole linear path: <<ok, live, created nodes>>; ok = FALSE at the first disabled step *)
RECURSIVE RunLin(_, _, _, _)
RunLin(live, path, k, made) ==
    IF k > Len(path) THEN <<TRUE, live, made>>
    ELSE IF ~LinEnabled(live, path[k]) THEN <<FALSE, live, made>>
    ELSE LET nl == LinStep(live, path[k]) IN
         RunLin(nl, path, k + 1, IF Len(path[k]) >= 2 THEN Append(made, nl[Len(nl)]) ELSE made)
RunLinear(N, path) == RunLin(LinInit(N), path, 1, <<>>)

(* ---- ssa machine ------------------------------------------------------ *)
(* alive: function id -> tensor for the ids still alive *)
SsaInit(N) == [i \in 0..(N - 1) |-> {i}]
SsaEnabled(alive, con) ==
    /\ Len(con) >= 1 /\ NoDup(con)
    /\ \A k \in DOMAIN con : con[k] \in DOMAIN alive
RECURSIVE RunSsaR(_, _, _, _, _)
RunSsaR(alive, nxt, path, k, made) ==
    IF k > Len(path) THEN <<TRUE, alive, made>>
    ELSE IF ~SsaEnabled(alive, path[k]) THEN <<FALSE, alive, made>>
    ELSE LET C  == SeqRng(path[k])
             u  == UNION {alive[i] : i \in C}
             na == [i \in (DOMAIN alive \ C) \cup {nxt} |-> IF i = nxt THEN u ELSE alive[i]]
         IN  RunSsaR(na, nxt + 1, path, k + 1, IF Len(path[k]) >= 2 THEN Append(made, u) ELSE made)
RunSsa(N, path) == RunSsaR(SsaInit(N), N, path, 1, <<>>)

(* a run is a complete, well-formed contraction of N tensors *)
WellFormedLin(N, path) ==
    LET r == RunLinear(N, path) IN r[1] /\ Len(r[2]) = 1 /\ r[2][1] = 0..(N - 1)
WellFormedSsa(N, path) ==
    LET r == RunSsa(N, path) IN
    r[1] /\ Cardinality(DOMAIN r[2]) = 1 /\ (\A i \in DOMAIN r[2] : r[2][i] = 0..(N - 1))
(* the set of intermediates a path creates: the tree it denotes *)
TreeOfLin(N, path) == SeqRng(RunLinear(N, path)[3])
TreeOfSsa(N, path) == SeqRng(RunSsa(N, path)[3])

(* ---- converters (each step compared as a set of ids) ------------------- *)
RECURSIVE L2S(_, _, _, _)
L2S(ids, nxt, path, k) ==     \* ids: sequence of ssa ids currently at each linear position
    IF k > Len(path) THEN <<>>
    ELSE LET P == {path[k][j] + 1 : j \in DOMAIN path[k]} IN
         <<{ids[p] : p \in P}>> \o L2S(Append(RemovePos(ids, P), nxt), nxt + 1, path, k + 1)
LinToSsa(N, path) == L2S([k \in 1..N |-> k - 1], N, path, 1)

RECURSIVE S2L(_, _, _, _)
S2L(ids, nxt, path, k) ==
    IF k > Len(path) THEN <<>>
    ELSE LET P == {CHOOSE p \in DOMAIN ids : ids[p] = path[k][j] : j \in DOMAIN path[k]} IN
         <<{p - 1 : p \in P}>> \o S2L(Append(RemovePos(ids, P), nxt), nxt + 1, path, k + 1)
SsaToLin(N, path) == S2L([k \in 1..N |-> k - 1], N, path, 1)

AsSets(path) == [k \in DOMAIN path |-> SeqRng(path[k])]
(* back from per-step sets to some sequence form (ascending), for round trips *)
SetToSeq(S) == [n \in 1..Cardinality(S) |-> CHOOSE x \in S : Cardinality({y \in S : y < x}) = n - 1]
AsSeqs(spath) == [k \in DOMAIN spath |-> SetToSeq(spath[k])]

(* ---- edge paths -------------------------------------------------------- *)
(* processing index ix merges ALL live tensors that carry ix, if there are at least two;
   inputs: sequence (1-based positions = tensor id + 1) of index sets; the expected SSA path *)
RECURSIVE EdgeRun(_, _, _, _)
EdgeRun(alive, nxt, epath, k) ==     \* alive: ssa id -> set of indices still attached
    IF k > Len(epath) THEN <<>>
    ELSE LET ix == epath[k]
             C  == {i \in DOMAIN alive : ix \in alive[i]} IN
         IF Cardinality(C) < 2 THEN EdgeRun(alive, nxt, epath, k + 1)
         ELSE LET u  == UNION {alive[i] : i \in C} \ {ix}
                  na == [i \in (DOMAIN alive \ C) \cup {nxt} |-> IF i = nxt THEN u ELSE alive[i]]
              IN  <<C>> \o EdgeRun(na, nxt + 1, epath, k + 1)
EdgeToSsa(inputs, epath) ==
    EdgeRun([i \in 0..(Len(inputs) - 1) |-> inputs[i + 1]], Len(inputs), epath, 1)
=============================================================================
