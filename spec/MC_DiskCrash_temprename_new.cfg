SPECIFICATION Spec
CONSTANTS
  Protocol = "temprename"
  Reader = "strict"
  PLen = 3
  HasOld = FALSE
  Split = TRUE
INVARIANT NeverPoisoned
INVARIANT OldNeverLost
INVARIANT FinalAlwaysComplete
CHECK_DEADLOCK FALSE
