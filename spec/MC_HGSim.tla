------------------------------ MODULE MC_HGSim ------------------------------
EXTENDS HGSim
\* 4 tensors: hyper index 1 (on 1,2,3 and the output), bond 2, dangling 4 and 3 (on one tensor only), bond 5, index 6 only in the output of one tensor
N_A == [inputs |-> << <<1, 2>>, <<1, 3>>, <<1, 2, 5>>, <<5, 4, 6>> >>,
        output |-> <<1, 6>>, dim |-> <<2, 3, 2, 2, 2, 3>>, rank |-> <<3, 1, 2, 5, 4, 6>>, id |-> 1]
\* 5 tensors: a ring with one output index and a hyper index, a double bond (3, 8 between tensors 2 and 3)
N_C == [inputs |-> << <<1, 2>>, <<2, 3, 8>>, <<3, 8, 4, 6>>, <<4, 5, 6>>, <<5, 1, 6, 7>> >>,
        output |-> <<7>>, dim |-> <<2, 3, 2, 2, 3, 2, 2, 2>>, rank |-> <<1, 2, 3, 4, 5, 6, 7, 8>>, id |-> 2]
\* disconnected: two components and a scalar
N_D == [inputs |-> << <<1>>, <<1, 2>>, <<3>>, <<3>>, <<>> >>,
        output |-> <<2>>, dim |-> <<2, 3, 2>>, rank |-> <<1, 2, 3>>, id |-> 3]
NetsAll == {N_A, N_C, N_D}
NetsA == {N_A}
Ids == {1, 3, 7}
NoIds == {}
=============================================================================
