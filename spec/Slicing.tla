------------------------------ MODULE Slicing ------------------------------
(***************************************************************************)
(* Slice numbering and reassembly (property C06).                          *)
(*                                                                         *)
(* `sliced` is the canonical sequence of [ind, project] (output indices    *)
(* first, then by name); a projected index has size 1 and contributes no   *)
(* digit.  Slice number i in 0..NSlices-1 is a mixed-radix numeral whose   *)
(* digits, most significant first, are the values of the non-projected     *)
(* sliced indices in canonical order.                                      *)
(***************************************************************************)
EXTENDS TreeDefs

Radix(net, e) == IF e.project = -1 THEN net.dim[e.ind] ELSE 1
RECURSIVE StrideAfter(_, _, _)
StrideAfter(net, sliced, k) ==        \* product of the radices after position k
    IF k >= Len(sliced) THEN 1
    ELSE Radix(net, sliced[k + 1]) * StrideAfter(net, sliced, k + 1)
NSlices(net, sliced) == StrideAfter(net, sliced, 0)

(* value of every sliced index in slice number i *)
SliceKey(net, sliced, i) ==
    [ix \in SlSet(sliced) |->
        LET k == CHOOSE k \in DOMAIN sliced : sliced[k].ind = ix IN
        IF sliced[k].project # -1 THEN sliced[k].project
        ELSE (i \div StrideAfter(net, sliced, k)) % net.dim[ix]]

OutSliced(net, sliced)   == {k \in DOMAIN sliced : InOut(net, sliced[k].ind)}
InnerSliced(net, sliced) == DOMAIN sliced \ OutSliced(net, sliced)
(* the output key of slice i: the values of the sliced OUTPUT indices *)
OutKey(net, sliced, i) ==
    LET key == SliceKey(net, sliced, i) IN
    [ix \in {sliced[k].ind : k \in OutSliced(net, sliced)} |-> key[ix]]
(* consecutive slices of this length share their output key (canonical order) *)
ChunkStep(net, sliced) ==
    FoldSet(LAMBDA k, acc : acc * Radix(net, sliced[k]), 1, InnerSliced(net, sliced))
NChunks(net, sliced) == NSlices(net, sliced) \div ChunkStep(net, sliced)

(* all assignments the sliced indices can take *)
KeySpace(net, sliced) ==
    {a \in [SlSet(sliced) -> 0..MaxSet({net.dim[ix] : ix \in SlSet(sliced)} \cup {1})] :
        \A k \in DOMAIN sliced :
            IF sliced[k].project # -1 THEN a[sliced[k].ind] = sliced[k].project
            ELSE a[sliced[k].ind] < net.dim[sliced[k].ind]}
OutKeySpace(net, sliced) ==
    {[ix \in {sliced[k].ind : k \in OutSliced(net, sliced)} |-> a[ix]] : a \in KeySpace(net, sliced)}

(* ---- theorems checked by MC_Slicing on every bounded pattern ---------- *)
(* slice numbers <-> combinations of values: a bijection *)
KeysBijective(net, sliced) ==
    LET n == NSlices(net, sliced) IN
    /\ {SliceKey(net, sliced, i) : i \in 0..(n - 1)} = KeySpace(net, sliced)
    /\ Cardinality(KeySpace(net, sliced)) = n
(* blocks of ChunkStep consecutive slices share the output key; blocks enumerate the
   output keys exactly once *)
ChunksTile(net, sliced) ==
    LET st == ChunkStep(net, sliced)  nc == NChunks(net, sliced) IN
    /\ \A o \in 0..(nc - 1) : \A j \in 0..(st - 1) :
          OutKey(net, sliced, o * st + j) = OutKey(net, sliced, o * st)
    /\ {OutKey(net, sliced, o * st) : o \in 0..(nc - 1)} = OutKeySpace(net, sliced)
    /\ Cardinality(OutKeySpace(net, sliced)) = nc

(* ---- value semantics -------------------------------------------------- *)
(* what slice i must compute: the section with every sliced index fixed *)
SliceValue(net, sliced, i) == Einsum(net, SliceKey(net, sliced, i))
(* summing the sections over the inner sliced indices and placing them at their output
   coordinates reproduces the contraction (with projected indices held fixed) *)
ChunkValue(net, sliced, okey) == Einsum(net, okey @@ ProjFix(sliced))
(* design-level statement of C06 on values: stacking, at their output coordinates, the
   per-slice sections summed over the inner sliced indices gives the full contraction *)
SlicesReassemble(net, sliced) ==
    \A okey \in OutKeySpace(net, sliced) :
        LET S == {i \in 0..(NSlices(net, sliced) - 1) : OutKey(net, sliced, i) = okey}
            v == ChunkValue(net, sliced, okey)
        IN  \A n \in DOMAIN v :
                v[n] = FoldSet(LAMBDA i, acc : acc + SliceValue(net, sliced, i)[n], 0, S)
(* contract_mpi: the slice numbers are dealt out round robin to `nproc` ranks; every slice is computed by exactly one
   rank (so the sum of the ranks' partial sums is the sum over all slices), provided there are at least nproc slices *)
RankSlices(n, nproc, r) == {i \in 0..(n - 1) : i % nproc = r}
RanksPartition(n, nproc) ==
    /\ UNION {RankSlices(n, nproc, r) : r \in 0..(nproc - 1)} = 0..(n - 1)
    /\ \A r1, r2 \in 0..(nproc - 1) : r1 # r2 => RankSlices(n, nproc, r1) \cap RankSlices(n, nproc, r2) = {}
    /\ (n >= nproc => \A r \in 0..(nproc - 1) : RankSlices(n, nproc, r) # {})
=============================================================================
