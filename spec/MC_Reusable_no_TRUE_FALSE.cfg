SPECIFICATION Spec
CONSTANTS
  Pool <- PoolDef
  Fp <- FpDef
  Scores <- ScoresDef
  Overwrite = "no"
  CacheOnly = TRUE
  HasDisk = FALSE
  MaxQueries = 4
INVARIANT AnswersQuery
INVARIANT CacheOnlyNeverRuns
INVARIANT MemCoherent
INVARIANT NoDiskNoFiles
PROPERTY RepeatIsHit
PROPERTY ImprovedMonotone
CHECK_DEADLOCK FALSE
