------------------------------ MODULE DiskCrash2 ------------------------------
(***************************************************************************)
(* Two writers storing the SAME entry at the same time (property C15):     *)
(* two worker processes forked from one process that built the optimizer   *)
(* object, or two processes pointed at one directory.  Each follows the    *)
(* temp + rename protocol of DiskCrash.tla; any of them may be killed      *)
(* between any two of its system calls.  What matters is how the temporary *)
(* file is named: TmpOf[w] is the name writer w uses.  With a name per     *)
(* writer (the code: ".tmp-<pid>-<thread>") the final name only ever holds *)
(* a complete entry; with one shared name (a pid remembered in the         *)
(* inherited object) a writer that opens - truncates - the file the other  *)
(* one is about to rename poisons the entry.                               *)
(*                                                                         *)
(* A file is "absent", <<"old">>, <<"new", n>> (n valid payload bytes from *)
(* the start) or <<"garbage">> (written at an offset beyond its end after  *)
(* somebody else truncated it).  Every writer has its own file offset.     *)
(***************************************************************************)
EXTENDS Naturals, Sequences, FiniteSets, TLC
CONSTANTS Writers, TmpOf, PLen, HasOld, Reader
VARIABLES final, tmp, pc, off, dead, outcome
vars == <<final, tmp, pc, off, dead, outcome>>

Absent == <<"absent">>
Old    == <<"old">>
New(n) == <<"new", n>>
Garbage == <<"garbage">>
Complete(f) == f = Old \/ f = New(PLen)
Names == {TmpOf[w] : w \in Writers}

Init == /\ final = IF HasOld THEN Old ELSE Absent
        /\ tmp = [nm \in Names |-> Absent]
        /\ pc = [w \in Writers |-> "open"]
        /\ off = [w \in Writers |-> 0]
        /\ dead = {}
        /\ outcome = "none"

Alive(w) == w \notin dead /\ outcome = "none"

Open(w) == /\ Alive(w) /\ pc[w] = "open"
           /\ tmp' = [tmp EXCEPT ![TmpOf[w]] = New(0)]          \* O_TRUNC
           /\ pc' = [pc EXCEPT ![w] = "write"] /\ off' = [off EXCEPT ![w] = 0]
           /\ UNCHANGED <<final, dead, outcome>>

Write(w, n) ==
    /\ Alive(w) /\ pc[w] = "write" /\ off[w] < PLen /\ n \in 1..(PLen - off[w])
    /\ LET f == tmp[TmpOf[w]]
       IN  tmp' = [tmp EXCEPT ![TmpOf[w]] =
                     IF f = Absent THEN f                         \* unlinked under the writer: the bytes go nowhere visible
                     ELSE IF f[1] = "new" /\ f[2] = off[w] THEN New(off[w] + n)
                     ELSE IF f[1] = "new" /\ f[2] > off[w] THEN f     \* the same bytes again over what is there
                     ELSE Garbage]
    /\ off' = [off EXCEPT ![w] = off[w] + n]
    /\ UNCHANGED <<final, pc, dead, outcome>>

Close(w) == /\ Alive(w) /\ pc[w] = "write" /\ off[w] = PLen
            /\ pc' = [pc EXCEPT ![w] = "rename"]
            /\ UNCHANGED <<final, tmp, off, dead, outcome>>

Rename(w) == /\ Alive(w) /\ pc[w] = "rename"
             /\ IF tmp[TmpOf[w]] = Absent
                THEN UNCHANGED <<final, tmp>>                      \* ENOENT: somebody renamed the shared file already
                ELSE final' = tmp[TmpOf[w]] /\ tmp' = [tmp EXCEPT ![TmpOf[w]] = Absent]
             /\ pc' = [pc EXCEPT ![w] = "done"]
             /\ UNCHANGED <<off, dead, outcome>>

Crash(w) == /\ Alive(w) /\ pc[w] # "done"
            /\ dead' = dead \cup {w}
            /\ UNCHANGED <<final, tmp, pc, off, outcome>>

AllOver == \A w \in Writers : w \in dead \/ pc[w] = "done"
Read == /\ AllOver /\ outcome = "none"
        /\ outcome' = IF final = Absent THEN "searched"
                      ELSE IF final = Old THEN "old"
                      ELSE IF final = New(PLen) THEN "new"
                      ELSE IF Reader = "tolerant" THEN "searched"
                      ELSE "fails-permanently"
        /\ UNCHANGED <<final, tmp, pc, off, dead>>

Next == \/ \E w \in Writers : Open(w) \/ Close(w) \/ Rename(w) \/ Crash(w) \/ (\E n \in 1..PLen : Write(w, n))
        \/ Read
Spec == Init /\ [][Next]_vars

NeverPoisoned       == outcome \in {"none", "old", "new", "searched"}
FinalAlwaysComplete == final = Absent \/ Complete(final)
OldNeverLost        == HasOld => Complete(final)
=============================================================================
