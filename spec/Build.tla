-------------------------------- MODULE Build --------------------------------
(***************************************************************************)
(* Building a contraction tree (ContractionTree.contract_nodes_pair /      *)
(* contract_nodes / autocomplete, as used by from_path, by the partition   *)
(* based builders - top-down `build_divide`, bottom-up `build_agglom` - and *)
(* by users who assemble trees by hand).                                    *)
(*                                                                         *)
(* State: the nodes the tree knows, the partial children function, and the *)
(* figures a tree constructed with track_flops / track_write / track_size  *)
(* / track_childless keeps up to date while it grows.                      *)
(*                                                                         *)
(*   PairUp(x, y)   bottom-up: two parentless nodes get a parent           *)
(*   Divide(c, x)   top-down: a childless node is split in two             *)
(*   GroupUp(G)     contract_nodes on >= 3 parentless nodes: the union     *)
(*                  becomes a node and SOME binary tree is filled in       *)
(*   DivideMany(c, P) contract_nodes on a partition of a childless node    *)
(*   Auto           autocomplete(): every childless node gets a binary     *)
(*                  tree over the parentless nodes grouped beneath it      *)
(* The sub-optimizer that chooses the binary tree inside contract_nodes is *)
(* nondeterminism here.                                                    *)
(***************************************************************************)
EXTENDS BuildDefs
CONSTANTS Nets, MaxHist, MaxGroup
VARIABLES net, nodes, ch, tflops, twrite, tmax, childless, hist
vars == <<net, nodes, ch, tflops, twrite, tmax, childless, hist>>

Log(e) == hist' = IF MaxHist > 0 /\ Len(hist) < MaxHist THEN Append(hist, e) ELSE hist
Bounded == MaxHist = 0 \/ Len(hist) < MaxHist

Init == /\ net \in Nets
        /\ nodes = LeafNodes(net) \cup {Leaves(net)}
        /\ ch = <<>>
        /\ tflops = 0 /\ twrite = 0 /\ tmax = -1
        /\ childless = {Leaves(net)}
        /\ hist = <<>>

(* contract_nodes_pair: _add_node for x, y and the parent, children[parent] = ordered pair,
   tracked figures incremented by the new parent's flops / size, childless updated *)
AddPair(nd, c, fl, wr, mx, cl, x, y) ==
    LET p   == x \cup y
        c2  == c @@ (p :> PairOrder(x, y))
    IN  [nodes |-> nd \cup {x, y, p}, ch |-> c2,
         tflops |-> fl + Flops(net, x, y, {}), twrite |-> wr + Size(net, p, {}),
         tmax |-> Max2(mx, Size(net, p, {})),
         childless |-> (cl \ {p}) \cup {n \in {x, y} : Cardinality(n) > 1 /\ n \notin DOMAIN c2}]

(* add a whole binary tree t (children function) whose internal nodes are new, bottom-up *)
RECURSIVE AddTree(_, _, _)
AddTree(s, t, todo) ==
    IF todo = {} THEN s
    ELSE LET p == CHOOSE q \in todo : \A r \in todo : Cardinality(q) <= Cardinality(r)
             n == AddPair(s.nodes, s.ch, s.tflops, s.twrite, s.tmax, s.childless, t[p][1], t[p][2])
         IN  AddTree(n, t, todo \ {p})

Cur == [nodes |-> nodes, ch |-> ch, tflops |-> tflops, twrite |-> twrite, tmax |-> tmax, childless |-> childless]
Become(s) == /\ nodes' = s.nodes /\ ch' = s.ch /\ tflops' = s.tflops /\ twrite' = s.twrite
             /\ tmax' = s.tmax /\ childless' = s.childless /\ UNCHANGED net

PairOK(x, y) ==
    /\ x # {} /\ y # {} /\ x \cap y = {} /\ (x \cup y) \notin DOMAIN ch
    /\ ~HasParent(ch, x) /\ ~HasParent(ch, y)
    /\ Laminar(nodes \cup {x, y, x \cup y})

PairUp(x, y) ==
    /\ Bounded
    /\ x \in Parentless(net, nodes, ch) /\ y \in Parentless(net, nodes, ch) /\ PairOK(x, y)
    /\ Become(AddPair(nodes, ch, tflops, twrite, tmax, childless, x, y))
    /\ Log(<<"pair", x, y>>)

Divide(c, x) ==
    /\ Bounded
    /\ c \in Childless(nodes, ch) /\ x \subseteq c /\ x # {} /\ x # c
    /\ MinEl(c) \in x                       \* one of the two parts names the split
    /\ PairOK(x, c \ x)
    /\ Become(AddPair(nodes, ch, tflops, twrite, tmax, childless, x, c \ x))
    /\ Log(<<"pair", x, c \ x>>)

GroupOK(G) ==
    /\ Cardinality(G) >= 3 /\ Cardinality(G) <= MaxGroup
    /\ \A a, b \in G : a # b => a \cap b = {}
    /\ \A a \in G : a # {} /\ ~HasParent(ch, a)
    /\ (UNION G) \notin DOMAIN ch
    /\ Laminar(nodes \cup G \cup {UNION G})
    \* nothing already sits strictly between the members and their union
    /\ \A n \in nodes : (n \subseteq UNION G /\ n # UNION G) => \E a \in G : n \subseteq a

GroupUp(G) ==
    /\ Bounded
    /\ G \subseteq Parentless(net, nodes, ch) /\ GroupOK(G)
    /\ \E t \in TreesOver(G) :
          Become(AddTree([Cur EXCEPT !.nodes = nodes \cup G \cup {UNION G}], t, DOMAIN t))
    /\ Log(<<"group", G>>)

DivideMany(c, P) ==
    /\ Bounded
    /\ c \in Childless(nodes, ch) /\ IsPartition(P, c) /\ GroupOK(P)
    /\ \E t \in TreesOver(P) :
          Become(AddTree([Cur EXCEPT !.nodes = nodes \cup P \cup {c}], t, DOMAIN t))
    /\ Log(<<"group", P>>)

(* autocomplete: one binary tree per childless node over its group of parentless nodes *)
RECURSIVE AutoResults(_, _)
AutoResults(S, todo) ==       \* set of states reachable by resolving the childless nodes in todo
    IF todo = {} THEN S
    ELSE LET c == CHOOSE q \in todo : TRUE
             G == GroupOf(net, nodes, ch, c)
         IN  AutoResults({AddTree(s, t, DOMAIN t) : s \in S, t \in TreesOver(G)}, todo \ {c})
Auto ==
    /\ Bounded
    /\ Childless(nodes, ch) # {}
    /\ \A c \in Childless(nodes, ch) : Cardinality(GroupOf(net, nodes, ch, c)) <= MaxGroup
    /\ \E s \in AutoResults({Cur}, Childless(nodes, ch)) : Become(s)
    /\ Log(<<"auto">>)

Next == \/ \E x, y \in Parentless(net, nodes, ch) : PairUp(x, y)
        \/ \E c \in Childless(nodes, ch) : \E x \in SUBSET c : Divide(c, x)
        \/ \E G \in SUBSET Parentless(net, nodes, ch) : GroupUp(G)
        \/ \E c \in Childless(nodes, ch) : \E P \in PartitionsOf(c) : DivideMany(c, P)
        \/ Auto
Spec == Init /\ [][Next]_vars

(* ---- properties -------------------------------------------------------- *)
WF            == WFPartial(net, nodes, ch)
TrackedOK     == /\ tflops = BuiltFlops(net, ch) /\ twrite = BuiltWrite(net, ch) /\ tmax = BuiltMax(net, ch)
ChildlessOK   == childless = Childless(nodes, ch)
(* get_incomplete_nodes: the groups partition their childless node, and have at least two members *)
GroupsPartition ==
    \A c \in Childless(nodes, ch) :
        LET G == GroupOf(net, nodes, ch, c) IN IsPartition(G, c) /\ Cardinality(G) >= 2
EveryParentlessGrouped ==
    \A n \in Parentless(net, nodes, ch) : \E c \in Childless(nodes, ch) : n \subseteq c
CompleteIff   == (Len(net.inputs) >= 2) => (CompletePartial(nodes, ch) <=> Complete(net, ch))
AutoCompletes == [][(hist' # hist /\ hist'[Len(hist')][1] = "auto") => CompletePartial(nodes', ch')]_vars
OnlyGrows     == [][nodes \subseteq nodes' /\ \A p \in DOMAIN ch : p \in DOMAIN ch' /\ ch'[p] = ch[p]]_vars
Done          == CompletePartial(nodes, ch)
EmitHist      == (MaxHist > 0 /\ (Done \/ Len(hist) = MaxHist)) => PrintT(<<"V", net.id, hist>>)
=============================================================================
