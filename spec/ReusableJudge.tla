---------------------------- MODULE ReusableJudge ----------------------------
(***************************************************************************)
(* Trace validation of sequences of queries through a real Reusable*       *)
(* optimizer against spec/Reusable.tla (C14).  Data!Cases[c] =             *)
(*  [pool (seq of contraction records [inputs, output, dim]),              *)
(*   hashes (seq: class number of the implementation's fingerprint of each *)
(*   pool member), method ("a" | "b"), hasdisk,                            *)
(*   events (seq of [kind ("query" | "restart" | "update"), q, ow, co,     *)
(*     ran, outcome ("tree" | "KeyError"), runscore (rank of the score the *)
(*     run produced, 0 if none), answer_run (run that created the entry    *)
(*     the answer was built from, 0 if none), disk (set of fingerprint     *)
(*     classes with a file on disk after the step)])]                      *)
(* Verdict <<"V", c, clause, position>>.                                   *)
(***************************************************************************)
EXTENDS Data, ReusableDefs
VARIABLES k, pc, jm, jd, jr

Case == Cases[k]
Ev   == Case.events[pc]
Live == k <= Len(Cases)
Start(n) == k' = n /\ pc' = 0 /\ jm' = <<>> /\ jd' = <<>> /\ jr' = 0
Verdict(cl) == PrintT(<<"V", k, cl, pc>>) /\ Start(k + 1)
JInit == k = 1 /\ pc = 0 /\ jm = <<>> /\ jd = <<>> /\ jr = 0

Canon(c) == IF Case.method = "a" THEN CanonA(c) ELSE CanonB(c)
(* the implementation's fingerprints must induce exactly the partition of the pool that
   the canonical forms induce *)
FingerprintsOK ==
    \A a, b \in DOMAIN Case.pool :
        (Case.hashes[a] = Case.hashes[b]) <=> (Canon(Case.pool[a]) = Canon(Case.pool[b]))

Begin == /\ Live /\ pc = 0
         /\ IF ~FingerprintsOK THEN Verdict("fingerprint-classes-differ-from-canonical-forms")
            ELSE pc' = 1 /\ UNCHANGED <<k, jm, jd, jr>>

StepRestart ==
    /\ Live /\ pc >= 1 /\ pc <= Len(Case.events) /\ Ev.kind = "restart"
    /\ jm' = <<>> /\ pc' = pc + 1 /\ UNCHANGED <<k, jd, jr>>

StepQuery ==
    /\ Live /\ pc >= 1 /\ pc <= Len(Case.events) /\ Ev.kind = "query"
    /\ LET p == Policy(jm, jd, jr, Case.hashes[Ev.q], Ev.q, Ev.runscore, Ev.ow, Ev.co, Case.hasdisk) IN
       IF p.ran # Ev.ran THEN Verdict(IF Ev.ran THEN "searched-although-cached" ELSE "did-not-search")
       ELSE IF (p.outcome = "KeyError") # (Ev.outcome = "KeyError") THEN Verdict("outcome-differs")
       ELSE IF p.outcome # "KeyError" /\ p.entry.run # Ev.answer_run THEN Verdict("answer-built-from-wrong-entry")
       ELSE IF p.outcome # "KeyError" /\ Case.hashes[p.entry.creator] # Case.hashes[Ev.q]
            THEN Verdict("answer-belongs-to-another-contraction")
       ELSE IF DOMAIN p.disk # Ev.disk THEN Verdict("directory-contents-differ")
       ELSE IF Ev.ow = "improved" /\ \E h \in DOMAIN jd : p.disk[h].score > jd[h].score
            THEN Verdict("stored-score-got-worse")
       ELSE /\ jm' = p.mem /\ jd' = p.disk /\ jr' = p.runs /\ pc' = pc + 1 /\ k' = k

(* update_from_tree(tree, overwrite=Ev.ow): runscore = rank of the tree's score, answer_run = tag of the entry that is
   in the cache for the fingerprint afterwards *)
StepUpdate ==
    /\ Live /\ pc >= 1 /\ pc <= Len(Case.events) /\ Ev.kind = "update"
    /\ LET h == Case.hashes[Ev.q]
           p == UpdatePolicy(jm, jd, jr, h, Ev.q, Ev.runscore, Ev.ow, Case.hasdisk) IN
       IF p.entry.run # Ev.answer_run
          THEN Verdict(IF p.stored THEN "update-not-stored" ELSE "update-stored-against-its-mode")
       ELSE IF DOMAIN p.disk # Ev.disk THEN Verdict("directory-contents-differ")
       ELSE IF Ev.ow = "improved" /\ \E g \in DOMAIN jd : p.disk[g].score > jd[g].score
            THEN Verdict("stored-score-got-worse")
       ELSE /\ jm' = p.mem /\ jd' = p.disk /\ jr' = p.runs /\ pc' = pc + 1 /\ k' = k

Finish == Live /\ pc > Len(Case.events) /\ Verdict("ok")
JNext == Begin \/ StepRestart \/ StepQuery \/ StepUpdate \/ Finish
=============================================================================
