------------------------------- MODULE Threads -------------------------------
(***************************************************************************)
(* One optimizer object serving many contractions, sequentially and from   *)
(* several threads (property C16).                                         *)
(*                                                                         *)
(* Each thread works through a queue of queries.  A query takes the steps  *)
(* the code takes (ReusableOptimizer.search / AutoOptimizer.search):       *)
(*   begin      enter search()                                             *)
(*   hash       fingerprint lookup in the shared cache                     *)
(*   getsub     obtain the (sub-)optimizer that will run                   *)
(*   search     run it: produces a tree of the queried contraction         *)
(*   store      remember the optimizer that ran (`_suboptimizers[tid]`)    *)
(*   cachewrite put the result in the shared cache                         *)
(*   fetch      fetch the tree to return (`self.last_opt.tree`)            *)
(* Variants (constant Variant):                                            *)
(*   "perthread"  the remembered optimizer is per thread and fresh per run *)
(*                (ReusableOptimizer; AutoOptimizer with caching)          *)
(*   "shared"     one slot for all threads              (negative instance)*)
(*   "stateful"   one long-lived optimizer per thread whose best-so-far    *)
(*                survives from one query to the next (HyperOptimizer      *)
(*                reused for different contractions)    (negative instance)*)
(***************************************************************************)
EXTENDS Naturals, Sequences, FiniteSets, TLC
CONSTANTS Threads, Queue, Cost, Variant, UseCache, MaxHist
VARIABLES pc, qi, cache, slot, shared, best, answers, hist
vars == <<pc, qi, cache, slot, shared, best, answers, hist>>

Q(t) == Queue[t][qi[t]]
Log(t) == hist' = IF MaxHist THEN Append(hist, t) ELSE hist

Init == /\ pc = [t \in Threads |-> "idle"] /\ qi = [t \in Threads |-> 0]
        /\ cache = {} /\ slot = [t \in Threads |-> 0] /\ shared = 0
        /\ best = [t \in Threads |-> 0]
        /\ answers = [t \in Threads |-> <<>>] /\ hist = <<>>

Goto(t, l) == pc' = [pc EXCEPT ![t] = l]
Answer(t, c) == answers' = [answers EXCEPT ![t] = Append(@, <<Q(t), c>>)]

Begin(t) == /\ pc[t] = "idle" /\ qi[t] < Len(Queue[t])
            /\ qi' = [qi EXCEPT ![t] = @ + 1] /\ Goto(t, "hash")
            /\ UNCHANGED <<cache, slot, shared, best, answers>> /\ Log(t)
Hash(t) == /\ pc[t] = "hash"
           /\ IF UseCache /\ Q(t) \in cache
              THEN Answer(t, Q(t)) /\ Goto(t, "idle")      \* rebuilt from the entry of this fingerprint
              ELSE Goto(t, "getsub") /\ UNCHANGED answers
           /\ UNCHANGED <<qi, cache, slot, shared, best>> /\ Log(t)
GetSub(t) == /\ pc[t] = "getsub" /\ Goto(t, "search")
             /\ UNCHANGED <<qi, cache, slot, shared, best, answers>> /\ Log(t)
Search(t) == /\ pc[t] = "search" /\ Goto(t, "store")
             /\ best' = [best EXCEPT ![t] =
                           IF Variant # "stateful" \/ @ = 0 \/ Cost[Q(t)] < Cost[@] THEN Q(t) ELSE @]
             /\ UNCHANGED <<qi, cache, slot, shared, answers>> /\ Log(t)
Store(t) == /\ pc[t] = "store" /\ Goto(t, "cachewrite")
            /\ slot' = [slot EXCEPT ![t] = best[t]] /\ shared' = best[t]
            /\ UNCHANGED <<qi, cache, best, answers>> /\ Log(t)
CacheWrite(t) == /\ pc[t] = "cachewrite" /\ Goto(t, "fetch")
                 /\ cache' = IF UseCache THEN cache \cup {Q(t)} ELSE cache
                 /\ UNCHANGED <<qi, slot, shared, best, answers>> /\ Log(t)
Fetch(t) == /\ pc[t] = "fetch" /\ Goto(t, "idle")
            /\ Answer(t, IF Variant = "shared" THEN shared ELSE slot[t])
            /\ UNCHANGED <<qi, cache, slot, shared, best>> /\ Log(t)

Step(t) == Begin(t) \/ Hash(t) \/ GetSub(t) \/ Search(t) \/ Store(t) \/ CacheWrite(t) \/ Fetch(t)
Next == \E t \in Threads : Step(t)
Spec == Init /\ [][Next]_vars

AllDone == \A t \in Threads : pc[t] = "idle" /\ qi[t] = Len(Queue[t])
(* every query is answered with a tree of the contraction it asked about *)
RightAnswer == \A t \in Threads : \A k \in DOMAIN answers[t] : answers[t][k][1] = answers[t][k][2]
EmitSchedule == AllDone => PrintT(<<"V", hist>>)
=============================================================================
