------------------------------- MODULE Threads -------------------------------
(***************************************************************************)
(* One optimizer object serving many contractions, sequentially and from   *)
(* several threads (property C16).                                         *)
(*                                                                         *)
(* Each thread works through a queue of queries.  A query takes the steps  *)
(* the code takes (ReusableOptimizer.search / AutoOptimizer.search):       *)
(*   begin      enter search()                                             *)
(*   hash       fingerprint lookup in the shared cache                     *)
(*   getsub     obtain the (sub-)optimizer that will run                   *)
(*   search     run it: produces a tree of the queried contraction         *)
(*   store      remember the optimizer that ran (`_suboptimizers[tid]`)    *)
(*   cachewrite put the result in the shared cache                         *)
(*   fetch      fetch the tree to return (`self.last_opt.tree`)            *)
(* Variants (constant Variant):                                            *)
(*   "perthread"  the remembered optimizer is per thread and fresh per run *)
(*                (ReusableOptimizer; AutoOptimizer with caching)          *)
(*   "shared"     one slot for all threads              (negative instance)*)
(*   "stateful"   one long-lived optimizer per thread whose best-so-far    *)
(*                survives from one query to the next (HyperOptimizer      *)
(*                reused for different contractions)    (negative instance)*)
(* Re-entrancy (constant Nest): while a thread's sub-optimizer runs it may *)
(* itself ask the SAME shared object about another contraction (a trial    *)
(* method that hands a sub-problem to the shared optimizer; kahypar's      *)
(* super_optimize='auto-hq' does this with the 'auto-hq' preset).  The     *)
(* nested query runs to completion on the same thread and uses the same    *)
(* per-thread slot.  The code remembers the optimizer that ran AFTER its   *)
(* search, so the outer query overwrites whatever the nested one left;     *)
(* StoreFirst = TRUE (remember it before the search) is a negative         *)
(* instance.                                                               *)
(***************************************************************************)
EXTENDS Naturals, Sequences, FiniteSets, TLC
CONSTANTS Threads, Queue, Cost, Variant, UseCache, MaxHist, Nest, StoreFirst
VARIABLES pc, qi, cache, slot, shared, best, answers, hist, nested
vars == <<pc, qi, cache, slot, shared, best, answers, hist, nested>>

Q(t) == Queue[t][qi[t]]
Log(t) == hist' = IF MaxHist THEN Append(hist, t) ELSE hist

Init == /\ pc = [t \in Threads |-> "idle"] /\ qi = [t \in Threads |-> 0]
        /\ cache = {} /\ slot = [t \in Threads |-> 0] /\ shared = 0
        /\ best = [t \in Threads |-> 0]
        /\ answers = [t \in Threads |-> <<>>] /\ hist = <<>>
        /\ nested = [t \in Threads |-> 0]

Goto(t, l) == pc' = [pc EXCEPT ![t] = l]
Answer(t, c) == answers' = [answers EXCEPT ![t] = Append(@, <<Q(t), c>>)]

Begin(t) == /\ pc[t] = "idle" /\ qi[t] < Len(Queue[t])
            /\ qi' = [qi EXCEPT ![t] = @ + 1] /\ Goto(t, "hash")
            /\ nested' = [nested EXCEPT ![t] = 0]
            /\ UNCHANGED <<cache, slot, shared, best, answers>> /\ Log(t)
Hash(t) == /\ pc[t] = "hash"
           /\ IF UseCache /\ Q(t) \in cache
              THEN Answer(t, Q(t)) /\ Goto(t, "idle")      \* rebuilt from the entry of this fingerprint
              ELSE Goto(t, "getsub") /\ UNCHANGED answers
           /\ UNCHANGED <<qi, cache, slot, shared, best, nested>> /\ Log(t)
GetSub(t) == /\ pc[t] = "getsub" /\ Goto(t, IF StoreFirst THEN "store" ELSE "search")
             /\ UNCHANGED <<qi, cache, slot, shared, best, answers, nested>> /\ Log(t)
(* a nested query about contraction c, asked by the running sub-optimizer of thread t, start to finish *)
Nested(t, c) ==
    /\ Nest /\ pc[t] = "search" /\ nested[t] = 0 /\ c # Q(t)
    /\ nested' = [nested EXCEPT ![t] = 1]
    /\ IF UseCache /\ c \in cache
       THEN UNCHANGED <<slot, shared, cache>>                 \* a hit: rebuilt from the entry, nothing remembered
       ELSE /\ slot' = [slot EXCEPT ![t] = c] /\ shared' = c
            /\ cache' = IF UseCache THEN cache \cup {c} ELSE cache
    /\ UNCHANGED <<pc, qi, best, answers, hist>>
Search(t) == /\ pc[t] = "search" /\ Goto(t, IF StoreFirst THEN "cachewrite" ELSE "store")
             /\ best' = [best EXCEPT ![t] =
                           IF Variant # "stateful" \/ @ = 0 \/ Cost[Q(t)] < Cost[@] THEN Q(t) ELSE @]
             /\ UNCHANGED <<qi, cache, slot, shared, answers, nested>> /\ Log(t)
Store(t) == /\ pc[t] = "store" /\ Goto(t, IF StoreFirst THEN "search" ELSE "cachewrite")
            \* remembered before the search, the slot names the optimizer of this query (its tree is read at fetch)
            /\ slot' = [slot EXCEPT ![t] = IF StoreFirst THEN Q(t) ELSE best[t]]
            /\ shared' = IF StoreFirst THEN Q(t) ELSE best[t]
            /\ UNCHANGED <<qi, cache, best, answers, nested>> /\ Log(t)
CacheWrite(t) == /\ pc[t] = "cachewrite" /\ Goto(t, "fetch")
                 /\ cache' = IF UseCache THEN cache \cup {Q(t)} ELSE cache
                 /\ UNCHANGED <<qi, slot, shared, best, answers, nested>> /\ Log(t)
Fetch(t) == /\ pc[t] = "fetch" /\ Goto(t, "idle")
            /\ Answer(t, IF Variant = "shared" THEN shared ELSE slot[t])
            /\ UNCHANGED <<qi, cache, slot, shared, best, nested>> /\ Log(t)

Contractions == UNION {{Queue[t][k] : k \in DOMAIN Queue[t]} : t \in Threads}
Step(t) == \/ Begin(t) \/ Hash(t) \/ GetSub(t) \/ Search(t) \/ Store(t) \/ CacheWrite(t) \/ Fetch(t)
           \/ \E c \in Contractions : Nested(t, c)
Next == \E t \in Threads : Step(t)
Spec == Init /\ [][Next]_vars

AllDone == \A t \in Threads : pc[t] = "idle" /\ qi[t] = Len(Queue[t])
(* every query is answered with a tree of the contraction it asked about *)
RightAnswer == \A t \in Threads : \A k \in DOMAIN answers[t] : answers[t][k][1] = answers[t][k][2]
EmitSchedule == AllDone => PrintT(<<"V", hist>>)
=============================================================================
