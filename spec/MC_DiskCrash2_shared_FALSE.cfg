SPECIFICATION Spec
CONSTANTS
  Writers <- W2
  TmpOf <- SharedName
  PLen = 3
  HasOld = FALSE
  Reader = "strict"
INVARIANT NeverPoisoned
INVARIANT FinalAlwaysComplete
INVARIANT OldNeverLost
CHECK_DEADLOCK FALSE
