------------------------------- MODULE Frontend -------------------------------
(***************************************************************************)
(* The einsum front end on token sequences (property C12).                 *)
(*                                                                         *)
(* A call form is                                                          *)
(*   [terms |-> seq of [pre, ell, post], out |-> [given, pre, ell, post],  *)
(*    shapes |-> seq of seq of Nat]                                        *)
(* labels are positive integers (the harness maps letters / sublist        *)
(* integers / arbitrary hashables to them so that integer order = the      *)
(* order numpy sorts by); `ell` says whether the term carries an ellipsis  *)
(* between `pre` and `post`.                                               *)
(*                                                                         *)
(* Normalize gives explicit inputs / output.  The ellipsis of term t       *)
(* stands for its rank - #named axes; ellipsis axes are RIGHT-aligned      *)
(* across operands and named -E .. -1 from the left; an implicit output is *)
(* the ellipsis axes followed by the labels occurring exactly once, SORTED *)
(* BY LABEL (numpy); array_contract's implicit output is the labels        *)
(* occurring once in ORDER OF APPEARANCE; ncon's output is the negative    *)
(* labels in the order -1, -2, ...                                         *)
(***************************************************************************)
EXTENDS Integers, Sequences, FiniteSets, TLC

Rng(s) == {s[k] : k \in DOMAIN s}
Named(t) == t.pre \o t.post
NEll(f, k) == IF f.terms[k].ell THEN Len(f.shapes[k]) - Len(Named(f.terms[k])) ELSE 0
MaxOf(S) == CHOOSE m \in S : \A x \in S : x <= m
E(f) == MaxOf({NEll(f, k) : k \in DOMAIN f.terms} \cup {0})
EllLabels(n) == [j \in 1..n |-> j - n - 1]              \* <<-n, ..., -1>>
Suffix(s, n) == SubSeq(s, Len(s) - n + 1, Len(s))

ShapeOK(f) == \A k \in DOMAIN f.terms :
                 IF f.terms[k].ell THEN Len(f.shapes[k]) >= Len(Named(f.terms[k]))
                 ELSE Len(f.shapes[k]) = Len(Named(f.terms[k]))

Inputs(f) == [k \in DOMAIN f.terms |->
                 f.terms[k].pre \o Suffix(EllLabels(E(f)), NEll(f, k)) \o f.terms[k].post]

AllNamed(f) == LET Cat[k \in 0..Len(f.terms)] == IF k = 0 THEN <<>> ELSE Cat[k - 1] \o Named(f.terms[k])
               IN  Cat[Len(f.terms)]
Count(s, x) == Cardinality({k \in DOMAIN s : s[k] = x})
Once(f) == {x \in Rng(AllNamed(f)) : Count(AllNamed(f), x) = 1}
SortedSeq(S) == [n \in 1..Cardinality(S) |-> CHOOSE x \in S : Cardinality({y \in S : y < x}) = n - 1]
(* order of first appearance *)
AppearSeq(f, S) == LET all == AllNamed(f) IN
    [n \in 1..Cardinality(S) |->
        all[CHOOSE k \in DOMAIN all : /\ all[k] \in S
                                      /\ \A j \in 1..(k - 1) : all[j] # all[k]
                                      /\ Cardinality({all[j] : j \in {j \in 1..(k - 1) : all[j] \in S}}) = n - 1]]

(* numpy.einsum semantics *)
Output(f) == IF f.out.given
             THEN f.out.pre \o (IF f.out.ell THEN EllLabels(E(f)) ELSE <<>>) \o f.out.post
             ELSE EllLabels(E(f)) \o SortedSeq(Once(f))
(* cotengra.array_contract with output = None (documented: order of appearance) *)
ArrayContractOutput(f) == AppearSeq(f, Once(f))
(* ncon: labels are integers, negative ones are outputs ordered -1, -2, ... (here the harness
   passes them as labels 1000 + k for -k) *)
NconOutput(f) == LET neg == {x \in Rng(AllNamed(f)) : x > 1000} IN SortedSeq(neg)

=============================================================================
