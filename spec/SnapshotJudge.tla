---------------------------- MODULE SnapshotJudge ----------------------------
(***************************************************************************)
(* Trace judge for recorded tree snapshots (properties C03, C08, C18):     *)
(* walks Data!Cases, one verdict tuple <<"V", i, clause>> per case.        *)
(***************************************************************************)
EXTENDS Data, SnapshotClauses
VARIABLE i
Init == i = 1
Next == /\ i <= Len(Cases)
        /\ PrintT(<<"V", i, Clause(Cases[i])>>)
        /\ i' = i + 1
=============================================================================
