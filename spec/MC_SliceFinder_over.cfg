SPECIFICATION Spec
CONSTANTS
  Net <- N1
  Ch <- C1
  Forbidden <- F5
  TSize = 0
  TSlices = 0
  TOver <- Ov
INVARIANT NeverForbidden
INVARIANT StopsRight
INVARIANT OverheadKept
CHECK_DEADLOCK FALSE
