SPECIFICATION Spec
CONSTANTS
  Pool <- PoolDef
  Omit = "none"
  MaxLen = 3
INVARIANT NoCrossTalk
CHECK_DEADLOCK FALSE
