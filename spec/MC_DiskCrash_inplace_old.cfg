SPECIFICATION Spec
CONSTANTS
  Protocol = "inplace"
  Reader = "strict"
  PLen = 3
  HasOld = TRUE
  Split = FALSE
INVARIANT NeverPoisoned

CHECK_DEADLOCK FALSE
