------------------------------ MODULE TreeCache ------------------------------
(***************************************************************************)
(* Implementation-shaped refinement of Tree.tla: what ContractionTree      *)
(* really stores and how it edits it in place (properties C04, C02).       *)
(*                                                                         *)
(*   children   as in Tree.tla                                             *)
(*   sl         set of sliced indices (projection is the same for costs)   *)
(*   order      insertion order of `tree.info`: leaves, root, then every   *)
(*              other node in the order it was (re-)created                *)
(*   cache[n]   the stored fields of node n: legs, inv(olved), size, flops;*)
(*              NoSet / NoNum when a field is absent                       *)
(*   tot        the running totals [flops, write] (per slice)              *)
(* The tree is in "tracking" mode (contract_stats has been called once), so*)
(* a node gets size and flops the moment it is created; `inv` only when    *)
(* flops are COMPUTED, not when they are SUPPLIED (simulated annealing     *)
(* passes legs, cost and size of the nodes it creates).                    *)
(*                                                                         *)
(*  Rotate(p, side, which)   the annealing move: _remove_node(p),          *)
(*        _remove_node(x), two contract_nodes_pair with supplied values    *)
(*        computed by compute_contracted_info from the operands' CACHED    *)
(*        legs                                                             *)
(*  Reconf(p)                remove and re-create p from its children with *)
(*        computed values (what subtree_reconfigure does to each branch)   *)
(*  RemoveInd(ix)            the in-place loop over `order` of             *)
(*        ContractionTree.remove_ind, with the constant Prefill choosing   *)
(*        between the code before (FALSE) and after (TRUE) the repair      *)
(*        "populate involved before editing any legs"                      *)
(*  RestoreInd(ix)           clear the leaves carrying ix, then remove and *)
(*        re-create every node one of whose children carries ix            *)
(* Invariant CacheCoherent: every stored field equals its definition.      *)
(***************************************************************************)
EXTENDS TreeDefs
CONSTANTS Net, Prefill, MaxSteps, InitTrees
VARIABLES children, sl, order, cache, tot, steps
vars == <<children, sl, order, cache, tot, steps>>

NoSet == {0}
NoNum == -1
Empty == [legs |-> NoSet, inv |-> NoSet, size |-> NoNum, flops |-> NoNum]
IsLeaf(n) == Cardinality(n) = 1
Root == Leaves(Net)

(* ---- reading with the cache: what get_legs / get_involved return -------- *)
LeafLegs(t, S) == Legs(Net, {t}, S)       \* compute_leaf_legs under the sliced set S
LegsOf(c, S, n) ==                        \* get_legs(n): cached, else computed (leaf / root only; inner nodes always have legs)
    IF c[n].legs # NoSet THEN c[n].legs
    ELSE IF IsLeaf(n) THEN LeafLegs(CHOOSE t \in n : TRUE, S)
    ELSE SeqRange(Net.output) \ S
(* legs a NEW node p = l u r gets when they are computed from the children's current legs *)
KeepRule(p, ix) == CountRule(Net, p, ix)
ComputedInv(c, S, ch, p)  == LegsOf(c, S, ch[p][1]) \cup LegsOf(c, S, ch[p][2])
ComputedLegs(c, S, ch, p) == IF p = Root THEN SeqRange(Net.output) \ S
                             ELSE {ix \in ComputedInv(c, S, ch, p) : KeepRule(p, ix)}
PSize(X) == Prod(Net, X)

(* contract_nodes_pair: create p; supplied = TRUE installs legs/flops/size without inv *)
Created(c, S, ch, p, supplied) ==
    LET inv  == ComputedInv(c, S, ch, p)
        legs == ComputedLegs(c, S, ch, p)
    IN  [legs |-> legs, inv |-> IF supplied THEN NoSet ELSE inv, size |-> PSize(legs), flops |-> PSize(inv)]

RECURSIVE BuildOrder(_, _)
BuildOrder(ch, done) ==      \* creation order of a tree built bottom-up: smaller nodes first
    LET todo == {p \in DOMAIN ch : p \notin done /\ p # Root /\ \A k \in {1, 2} : IsLeaf(ch[p][k]) \/ ch[p][k] \in done}
    IN  IF todo = {} THEN <<>>
        ELSE LET p == CHOOSE p \in todo : \A q \in todo : Cardinality(p) <= Cardinality(q) IN <<p>> \o BuildOrder(ch, done \cup {p})
RECURSIVE FillSeq(_, _, _, _)
FillSeq(c, ch, seq, k) == IF k > Len(seq) THEN c
                          ELSE FillSeq([c EXCEPT ![seq[k]] = Created(c, {}, ch, seq[k], FALSE)], ch, seq, k + 1)
RealInit ==
    /\ children \in InitTrees
    /\ sl = {}
    /\ LET inner == BuildOrder(children, {})
           leafs == [t \in 1..Len(Net.inputs) |-> {t}]
           c0    == [n \in {{t} : t \in Leaves(Net)} \cup DOMAIN children |->
                        IF IsLeaf(n) THEN [Empty EXCEPT !.legs = LeafLegs(CHOOSE t \in n : TRUE, {})] ELSE Empty]
           c1    == FillSeq(c0, children, inner \o <<Root>>, 1)
       IN /\ order = leafs \o <<Root>> \o inner
          /\ cache = c1
          /\ tot = [flops |-> SumOver(DOMAIN children, LAMBDA p : c1[p].flops),
                    write |-> SumOver(DOMAIN children, LAMBDA p : c1[p].size)]
    /\ steps = 0

(* _remove_node(p) for an inner node: subtract its CACHED figures, forget it (the root keeps its place in `order`) *)
Removed(c, p) == [n \in DOMAIN c \ (IF p = Root THEN {} ELSE {p}) |-> IF n = p THEN Empty ELSE c[n]]
OrderWithout(o, p) == IF p = Root THEN o ELSE SelectSeq(o, LAMBDA n : n # p)
OrderWith(o, p) == IF \E k \in DOMAIN o : o[k] = p THEN o ELSE Append(o, p)

Bump == steps < MaxSteps /\ steps' = steps + 1

(* subtree_reconfigure on one branch: remove p, re-create it from its children, values computed *)
Reconf(p) ==
    /\ Bump /\ p \in DOMAIN children
    /\ LET c1 == Removed(cache, p)
           new == Created(c1, sl, children, p, FALSE)
       IN /\ cache' = [n \in DOMAIN c1 \cup {p} |-> IF n = p THEN new ELSE c1[n]]
          /\ tot' = [flops |-> tot.flops - cache[p].flops + new.flops, write |-> tot.write - cache[p].size + new.size]
          /\ order' = OrderWith(OrderWithout(order, p), p)
    /\ UNCHANGED <<children, sl>>

(* the annealing move  ((a b) d) -> (a (b d))  with supplied legs / cost / size *)
Rotate(p, side, which) ==
    /\ Bump /\ p \in DOMAIN children
    /\ LET x == children[p][side]  d == children[p][3 - side] IN
       /\ x \in DOMAIN children
       /\ LET a  == children[x][which]  b == children[x][3 - which]
              nx == b \cup d
              ch2 == [q \in (DOMAIN children \ {x}) \cup {nx} |->
                         IF q = p THEN <<a, nx>> ELSE IF q = nx THEN <<b, d>> ELSE children[q]]
              c1 == Removed(Removed(cache, p), x)
              newx == Created(c1, sl, ch2, nx, TRUE)
              c2 == [n \in DOMAIN c1 \cup {nx} |-> IF n = nx THEN newx ELSE c1[n]]
              newp == Created(c2, sl, ch2, p, TRUE)
          IN /\ children' = ch2
             /\ cache' = [n \in DOMAIN c2 \cup {p} |-> IF n = p THEN newp ELSE c2[n]]
             /\ tot' = [flops |-> tot.flops - cache[p].flops - cache[x].flops + newx.flops + newp.flops,
                        write |-> tot.write - cache[p].size - cache[x].size + newx.size + newp.size]
             /\ order' = OrderWith(OrderWith(OrderWithout(OrderWithout(order, p), x), nx), p)
    /\ UNCHANGED sl

(* remove_ind: the loop over `order` *)
RECURSIVE RemLoop(_, _, _, _, _)
RemLoop(c, t, S, ix, k) ==      \* S is the NEW sliced set
    IF k > Len(order) THEN <<c, t>>
    ELSE LET n == order[k] IN
         IF IsLeaf(n) THEN
              IF ix \in OnT(Net, CHOOSE q \in n : TRUE)
              THEN RemLoop([c EXCEPT ![n] = Empty], t, S, ix, k + 1)
              ELSE RemLoop(c, t, S, ix, k + 1)
         ELSE LET inv == IF c[n].inv # NoSet THEN c[n].inv ELSE ComputedInv(c, S, children, n) IN
              IF ix \notin inv THEN RemLoop([c EXCEPT ![n].inv = inv], t, S, ix, k + 1)
              ELSE LET d  == Net.dim[ix]
                       f2 == c[n].flops \div d
                       legs == LegsOf(c, S, n)
                       hit == ix \in legs
                       s2 == IF hit THEN c[n].size \div d ELSE c[n].size
                   IN RemLoop([c EXCEPT ![n] = [legs |-> IF hit THEN legs \ {ix} ELSE legs, inv |-> inv \ {ix},
                                                size |-> s2, flops |-> f2]],
                              [flops |-> t.flops + f2 - c[n].flops, write |-> t.write + s2 - c[n].size], S, ix, k + 1)
RemoveInd(ix) ==
    /\ Bump /\ ix \in Ixs(Net) \ sl
    /\ LET pre == IF Prefill      \* the repair: populate involved of every contraction first
                  THEN [n \in DOMAIN cache |-> IF n \in DOMAIN children /\ cache[n].inv = NoSet
                                               THEN [cache[n] EXCEPT !.inv = ComputedInv(cache, sl, children, n)]
                                               ELSE cache[n]]
                  ELSE cache
           r == RemLoop(pre, tot, sl \cup {ix}, ix, 1)
       IN cache' = r[1] /\ tot' = r[2]
    /\ sl' = sl \cup {ix}
    /\ UNCHANGED <<children, order>>

(* restore_ind: clear the leaves carrying ix, then re-create (computed) every node a child of which carries ix,
   children first *)
RECURSIVE ResLoop(_, _, _, _, _, _)
ResLoop(c, t, o, S, ix, seq) ==
    IF seq = <<>> THEN <<c, t, o>>
    ELSE LET p == Head(seq)
             l == children[p][1]  r == children[p][2]
         IN IF ix \in LegsOf(c, S, l) \/ ix \in LegsOf(c, S, r)
            THEN LET c1 == Removed(c, p)
                     new == Created(c1, S, children, p, FALSE)
                 IN ResLoop([n \in DOMAIN c1 \cup {p} |-> IF n = p THEN new ELSE c1[n]],
                            [flops |-> t.flops - c[p].flops + new.flops, write |-> t.write - c[p].size + new.size],
                            OrderWith(OrderWithout(o, p), p), S, ix, Tail(seq))
            ELSE ResLoop(c, t, o, S, ix, Tail(seq))
BottomUp == LET inner == BuildOrder(children, {}) IN inner \o <<Root>>
RestoreInd(ix) ==
    /\ Bump /\ ix \in sl
    /\ LET S == sl \ {ix}
           c0 == [n \in DOMAIN cache |-> IF IsLeaf(n) /\ ix \in OnT(Net, CHOOSE q \in n : TRUE) THEN Empty ELSE cache[n]]
           r == ResLoop(c0, tot, order, S, ix, BottomUp)
       IN cache' = r[1] /\ tot' = r[2] /\ order' = r[3]
    /\ sl' = sl \ {ix}
    /\ UNCHANGED children

Next == \/ \E p \in DOMAIN children : Reconf(p)
        \/ \E p \in DOMAIN children : \E s \in {1, 2} : \E w \in {1, 2} : Rotate(p, s, w)
        \/ \E ix \in Ixs(Net) : RemoveInd(ix) \/ RestoreInd(ix)
Spec == RealInit /\ [][Next]_vars

(* ---- properties -------------------------------------------------------- *)
CacheCoherent ==
    \A n \in DOMAIN cache :
        IF IsLeaf(n) THEN cache[n].legs = NoSet \/ cache[n].legs = LeafLegs(CHOOSE t \in n : TRUE, sl)
        ELSE /\ cache[n].legs = NoSet \/ cache[n].legs = Legs(Net, n, sl)
             /\ cache[n].inv = NoSet \/ cache[n].inv = NodeInvolved(Net, children, sl, n)
             /\ cache[n].size = NoNum \/ cache[n].size = Size(Net, n, sl)
             /\ cache[n].flops = NoNum \/ cache[n].flops = NodeFlops(Net, children, sl, n)
TotalsCoherent ==
    /\ tot.flops = SumOver(DOMAIN children, LAMBDA p : NodeFlops(Net, children, sl, p))
    /\ tot.write = SumOver(DOMAIN children, LAMBDA p : Size(Net, p, sl))
Shape == Complete(Net, children) /\ DOMAIN cache = {{t} : t \in Leaves(Net)} \cup DOMAIN children
=============================================================================
