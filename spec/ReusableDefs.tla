---------------------------- MODULE ReusableDefs ----------------------------
(***************************************************************************)
(* Constant-level definitions shared by spec/Reusable.tla and the trace    *)
(* judge: cache entries, the lookup / run / overwrite policy, fingerprints *)
(* as canonical forms.                                                     *)
(***************************************************************************)
EXTENDS Integers, Sequences, FiniteSets, TLC
None == [creator |-> 0, run |-> 0, score |-> 0]
Put(f, h, e) == [x \in DOMAIN f \cup {h} |-> IF x = h THEN e ELSE f[x]]

(* the lookup / run / overwrite policy as a pure function of the cache state; shared by the
   Query action and by the trace judge (which passes per-query flags)                        *)
Policy(m, d, r, h, c, s, ow, co, hasdisk) ==
    LET present == h \in DOMAIN m \/ (hasdisk /\ h \in DOMAIN d)
        old     == IF h \in DOMAIN m THEN m[h] ELSE d[h]
        shouldrun == ~present \/ ow # "no"
        new     == [creator |-> c, run |-> r + 1, score |-> s]
    IN
    IF shouldrun /\ co THEN
        [mem |-> m, disk |-> d, runs |-> r, outcome |-> "KeyError", entry |-> None, ran |-> FALSE]
    ELSE IF shouldrun THEN
        IF ow = "improved" /\ present /\ ~(s < old.score)
        THEN [mem |-> Put(m, h, old), disk |-> d, runs |-> r + 1,
              outcome |-> "reconstructed", entry |-> old, ran |-> TRUE]
        ELSE [mem |-> Put(m, h, new), disk |-> IF hasdisk THEN Put(d, h, new) ELSE d, runs |-> r + 1,
              outcome |-> "searched", entry |-> new, ran |-> TRUE]
    ELSE [mem |-> Put(m, h, old), disk |-> d, runs |-> r,
          outcome |-> "reconstructed", entry |-> old, ran |-> FALSE]

(* update_from_tree(tree, overwrite=mode): an answer handed in from outside.  Stored iff the fingerprint is missing, or
   mode = "yes", or mode = "improved" and the new score is strictly better; the comparison only looks at the entry
   (mode "improved" loads it into memory) *)
UpdatePolicy(m, d, r, h, c, s, mode, hasdisk) ==
    LET present == h \in DOMAIN m \/ (hasdisk /\ h \in DOMAIN d)
        old     == IF h \in DOMAIN m THEN m[h] ELSE d[h]
        new     == [creator |-> c, run |-> r + 1, score |-> s]
        store   == ~present \/ mode = "yes" \/ (mode = "improved" /\ s < old.score)
    IN
    IF store THEN [mem |-> Put(m, h, new), disk |-> IF hasdisk THEN Put(d, h, new) ELSE d, runs |-> r + 1,
                   stored |-> TRUE, entry |-> new]
    ELSE [mem |-> IF mode = "improved" THEN Put(m, h, old) ELSE m, disk |-> d, runs |-> r, stored |-> FALSE, entry |-> old]

(* ---- fingerprints as canonical forms ----------------------------------- *)
(* a contraction is [inputs: Seq(Seq(ix)), output: Seq(ix), dim: function ix -> size]   *)
BagOf(s) == [x \in {s[k] : k \in DOMAIN s} |-> Cardinality({k \in DOMAIN s : s[k] = x})]
(* hash method 'a': index order inside each tensor and inside the output is forgotten   *)
CanonA(c) == <<[t \in DOMAIN c.inputs |-> BagOf(c.inputs[t])], BagOf(c.output),
               {<<ix, c.dim[ix]>> : ix \in DOMAIN c.dim}>>
(* hash method 'b': index names are forgotten in the incidence structure (each index is
   the bag of tensors it touches, -1 = output) but kept in the size table                *)
Incidence(c, ix) == [t \in {t \in DOMAIN c.inputs : \E k \in DOMAIN c.inputs[t] : c.inputs[t][k] = ix}
                          |-> Cardinality({k \in DOMAIN c.inputs[t] : c.inputs[t][k] = ix})]
                    @@ (IF \E k \in DOMAIN c.output : c.output[k] = ix
                        THEN (-1 :> Cardinality({k \in DOMAIN c.output : c.output[k] = ix})) ELSE <<>>)
CanonB(c) == <<BagOf([n \in 1..Cardinality(DOMAIN c.dim) |->
                        Incidence(c, CHOOSE ix \in DOMAIN c.dim :
                                       Cardinality({jx \in DOMAIN c.dim : jx < ix}) = n - 1)]),
               {<<ix, c.dim[ix]>> : ix \in DOMAIN c.dim}>>
=============================================================================
