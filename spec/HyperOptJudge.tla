---------------------------- MODULE HyperOptJudge ----------------------------
(***************************************************************************)
(* Trace validation of hyper-optimizer runs against spec/HyperOpt.tla      *)
(* (C08).  Data!Cases[c] = [M (max_repeats), P (pre_dispatch; 1 = serial), *)
(*   events (seq of <<"submit", id>> | <<"report", id>>), score (seq over  *)
(*   ids: rank of the reported score, Inf for a failed trial), Inf,        *)
(*   best (id the implementation ended with, 0 = none), nscores]           *)
(* Worker completions are not logged: `Complete` is a silent action TLC    *)
(* infers (a report of i is explainable iff i is in flight, since the scan *)
(* reports the first DONE future).  One action per event kind; the guards  *)
(* are those of HyperOpt!Submit / HyperOpt!Poll.                           *)
(* Verdict <<"V", c, clause, position>>.                                   *)
(***************************************************************************)
EXTENDS Data, Naturals, FiniteSets
VARIABLES c, pc, submitted, inflight, reported, best

Case == Cases[c]
Ev   == Case.events[pc]
Live == c <= Len(Cases)
SeqSet(s) == {s[k] : k \in DOMAIN s}

Start(k) == c' = k /\ pc' = 1 /\ submitted' = 0 /\ inflight' = <<>> /\ reported' = <<>> /\ best' = 0
Verdict(cl) == PrintT(<<"V", c, cl, pc>>) /\ Start(c + 1)
Init == c = 1 /\ pc = 1 /\ submitted = 0 /\ inflight = <<>> /\ reported = <<>> /\ best = 0

TrSubmit ==
    /\ Live /\ pc <= Len(Case.events) /\ Ev[1] = "submit"
    /\ IF submitted >= Case.M THEN Verdict("more-trials-than-requested")
       ELSE IF Len(inflight) >= Case.P THEN Verdict("submit-with-full-window")
       ELSE IF Ev[2] # submitted + 1 THEN Verdict("submission-ids-not-consecutive")
       ELSE /\ submitted' = submitted + 1 /\ inflight' = Append(inflight, Ev[2])
            /\ pc' = pc + 1 /\ UNCHANGED <<c, reported, best>>

Better(i) == Case.score[i] # Case.Inf /\ (best = 0 \/ Case.score[i] < Case.score[best])
TrReport ==
    /\ Live /\ pc <= Len(Case.events) /\ Ev[1] = "report"
    /\ IF Ev[2] \notin SeqSet(inflight) THEN Verdict("report-of-trial-not-in-flight")
       ELSE IF ~(Len(inflight) = Case.P \/ submitted = Case.M) THEN Verdict("poll-before-window-full")
       ELSE /\ inflight' = SelectSeq(inflight, LAMBDA x : x # Ev[2])
            /\ reported' = Append(reported, Ev[2])
            /\ best' = IF Better(Ev[2]) THEN Ev[2] ELSE best
            /\ pc' = pc + 1 /\ UNCHANGED <<c, submitted>>

Finish ==
    /\ Live /\ pc > Len(Case.events)
    /\ IF inflight # <<>> THEN Verdict("trials-never-reported")
       ELSE IF Len(reported) # Case.nscores THEN Verdict("scores-list-length-differs-from-reports")
       ELSE IF Len(reported) > Case.M THEN Verdict("more-trials-than-requested")
       ELSE IF Case.best # best THEN Verdict("best-is-not-first-minimum")
       ELSE Verdict("ok")

Next == TrSubmit \/ TrReport \/ Finish
=============================================================================
