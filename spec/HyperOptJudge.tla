---------------------------- MODULE HyperOptJudge ----------------------------
(***************************************************************************)
(* Trace validation of hyper-optimizer runs against spec/HyperOpt.tla      *)
(* (C08).  Data!Cases[c] = [M (max_repeats), P (pre_dispatch; 1 = serial), *)
(*   events (seq of <<"submit", id>> | <<"report", id>>), score (seq over  *)
(*   ids: rank of the reported score, Inf for a failed trial), Inf,        *)
(*   best (id the implementation ended with, 0 = none), nscores]           *)
(* Worker completions are not logged: `Complete` is a silent action TLC    *)
(* infers (a report of i is explainable iff i is in flight, since the scan *)
(* reports the first DONE future).  One action per event kind; the guards  *)
(* are those of HyperOpt!Submit / HyperOpt!Poll.                           *)
(* Stopping rule (HyperOpt!Check): rule "none" | "equil" (amount) | "time" *)
(* (amount, with <<"clock", t>> events: the value the loop's stop check    *)
(* read from the clock after the preceding report, relative to the start)  *)
(* | "any" (a rule the trace does not determine: any report may be last).  *)
(* The run must end at the first report after which the rule fires, and    *)
(* not before.                                                             *)
(* Verdict <<"V", c, clause, position>>.                                   *)
(***************************************************************************)
EXTENDS Data, Naturals, FiniteSets
VARIABLES c, pc, submitted, inflight, reported, best, since, fired

Case == Cases[c]
Ev   == Case.events[pc]
Live == c <= Len(Cases)
SeqSet(s) == {s[k] : k \in DOMAIN s}

Start(k) == c' = k /\ pc' = 1 /\ submitted' = 0 /\ inflight' = <<>> /\ reported' = <<>> /\ best' = 0 /\ since' = 0 /\ fired' = FALSE
Verdict(cl) == PrintT(<<"V", c, cl, pc>>) /\ Start(c + 1)
Init == c = 1 /\ pc = 1 /\ submitted = 0 /\ inflight = <<>> /\ reported = <<>> /\ best = 0 /\ since = 0 /\ fired = FALSE

TrSubmit ==
    /\ Live /\ pc <= Len(Case.events) /\ Ev[1] = "submit"
    /\ IF fired THEN Verdict("continued-after-stop-rule-fired")
       ELSE IF submitted >= Case.M THEN Verdict("more-trials-than-requested")
       ELSE IF Len(inflight) >= Case.P THEN Verdict("submit-with-full-window")
       ELSE IF Ev[2] # submitted + 1 THEN Verdict("submission-ids-not-consecutive")
       ELSE /\ submitted' = submitted + 1 /\ inflight' = Append(inflight, Ev[2])
            /\ pc' = pc + 1 /\ UNCHANGED <<c, reported, best, since, fired>>

Better(i) == Case.score[i] # Case.Inf /\ (best = 0 \/ Case.score[i] < Case.score[best])
TrReport ==
    /\ Live /\ pc <= Len(Case.events) /\ Ev[1] = "report"
    /\ IF fired THEN Verdict("continued-after-stop-rule-fired")
       ELSE IF Ev[2] \notin SeqSet(inflight) THEN Verdict("report-of-trial-not-in-flight")
       ELSE IF ~(Len(inflight) = Case.P \/ submitted = Case.M) THEN Verdict("poll-before-window-full")
       ELSE /\ inflight' = SelectSeq(inflight, LAMBDA x : x # Ev[2])
            /\ reported' = Append(reported, Ev[2])
            /\ best' = IF Better(Ev[2]) THEN Ev[2] ELSE best
            /\ since' = IF Better(Ev[2]) THEN 0 ELSE since + 1
            /\ fired' = (Case.rule = "equil" /\ since' > Case.amount)
            /\ pc' = pc + 1 /\ UNCHANGED <<c, submitted>>

(* the stop check's reading of the clock after a report *)
TrClock ==
    /\ Live /\ pc <= Len(Case.events) /\ Ev[1] = "clock"
    /\ IF fired THEN Verdict("continued-after-stop-rule-fired")
       ELSE /\ fired' = (Case.rule = "time" /\ Ev[2] > Case.amount)
            /\ pc' = pc + 1 /\ UNCHANGED <<c, submitted, inflight, reported, best, since>>

Finish ==
    /\ Live /\ pc > Len(Case.events)
    /\ IF inflight # <<>> /\ ~fired /\ Case.rule # "any" THEN Verdict("trials-never-reported")
       ELSE IF submitted < Case.M /\ ~fired /\ Case.rule # "any" THEN Verdict("stopped-although-no-rule-fired")
       ELSE IF Len(reported) # Case.nscores THEN Verdict("scores-list-length-differs-from-reports")
       ELSE IF Len(reported) > Case.M THEN Verdict("more-trials-than-requested")
       ELSE IF Case.best # best THEN Verdict("best-is-not-first-minimum")
       ELSE Verdict("ok")

Next == TrSubmit \/ TrReport \/ TrClock \/ Finish
=============================================================================
