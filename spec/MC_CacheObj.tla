---- MODULE MC_CacheObj ----
EXTENDS CacheObj
DescDef == {1, 2, 3}
HashInj == [d \in DescDef |-> d]
HashColl == [d \in DescDef |-> IF d = 3 THEN 2 ELSE d]     \* 2 and 3 collide (hash(-1) = hash(-2))
ObjDef == {"t1", "t2"}
ValDef == {10, 20}
====
