--------------------------- MODULE SliceFinderJudge ---------------------------
(***************************************************************************)
(* Judge for C07.  Data!Cases[c] = [net, ch (seq <<p,l,r>>), sl0 (set of   *)
(* indices the tree had already removed), mult0, forbidden (set),          *)
(* tsize, tslices (0 = unspecified), tover (<<num, den>>, <<0,0>> = none), *)
(* entries (seq of [X, size, flops, nslices]: the finder's whole cache),   *)
(* ret (index into entries of the returned one),                           *)
(* real [size, flops, mult] (figures of the tree after really removing the *)
(* returned indices), after (set: sliced indices of tree.slice(...)'s      *)
(* result, or {-1} if not run)]                                            *)
(* kind = "finder" (above) | "slice": a call of tree.slice(...) judged by  *)
(* its postcondition alone: [net, ch, sl0, forbidden, tsize, tslices,      *)
(* tover, reslice, after]; the requested targets must hold on the tree     *)
(* returned, relative to the tree the search started from (the unsliced    *)
(* one when reslice is set, and then the slice target counts on top of the *)
(* slices already there).                                                  *)
(* Verdict <<"V", c, clause, detail>>.                                     *)
(***************************************************************************)
EXTENDS Data, TreeDefs
VARIABLE c
ChOf(k) == [p \in {k.ch[j][1] : j \in DOMAIN k.ch} |->
              LET j == CHOOSE j \in DOMAIN k.ch : k.ch[j][1] = p IN <<k.ch[j][2], k.ch[j][3]>>]
EntryOK(k, ch, e) == LET d == CostOfN(k.net, ch, k.sl0, e.X) IN
                     e.size = d.size /\ e.flops = d.flops /\ e.nslices = d.nslices
Clause(k) ==
    LET ch == ChOf(k)
        r  == k.entries[k.ret]
        f0 == FlopsOne(k.net, ch, k.sl0)
    IN
    IF \E j \in DOMAIN k.entries : ~EntryOK(k, ch, k.entries[j])
        THEN <<"predicted-cost-differs-from-definition",
               CHOOSE j \in DOMAIN k.entries : ~EntryOK(k, ch, k.entries[j])>>
    ELSE IF r.X \cap k.forbidden # {} THEN <<"forbidden-index-chosen", 0>>
    ELSE IF r.X \cap k.sl0 # {} THEN <<"already-sliced-index-chosen", 0>>
    ELSE IF k.real.size # r.size THEN <<"predicted-size-not-real", k.real.size>>
    ELSE IF k.real.flops # k.mult0 * r.nslices * r.flops THEN <<"predicted-total-cost-not-real", k.real.flops>>
    ELSE IF k.real.mult # k.mult0 * r.nslices THEN <<"predicted-nslices-not-real", k.real.mult>>
    ELSE IF k.tsize # 0 /\ k.real.size > k.tsize THEN <<"target-size-not-honoured", k.real.size>>
    ELSE IF k.tslices # 0 /\ r.nslices < k.tslices THEN <<"target-slices-not-honoured", r.nslices>>
    ELSE IF ~OverOKN(r, f0, k.tover) THEN <<"target-overhead-not-honoured", r.nslices * r.flops>>
    ELSE IF k.after # {-1} /\ k.after # k.sl0 \cup r.X THEN <<"slice-result-has-other-sliced-set", 0>>
    ELSE <<"ok", 0>>
SliceClause(k) ==
    LET ch   == ChOf(k)
        base == IF k.reslice THEN {} ELSE k.sl0
        X    == k.after \ base
        d    == CostOfN(k.net, ch, base, X)
        f0   == FlopsOne(k.net, ch, base)
        want == IF k.reslice THEN k.tslices * Prod(k.net, k.sl0) ELSE k.tslices
    IN
    IF ~k.reslice /\ ~(k.sl0 \subseteq k.after) THEN <<"lost-sliced-index", 0>>
    ELSE IF X \cap k.forbidden # {} THEN <<"forbidden-index-chosen", 0>>
    ELSE IF k.tsize # 0 /\ d.size > k.tsize THEN <<"target-size-not-honoured", d.size>>
    ELSE IF k.tslices # 0 /\ d.nslices < want THEN <<"target-slices-not-honoured", d.nslices>>
    ELSE IF ~OverOKN(d, f0, k.tover) THEN <<"target-overhead-not-honoured", d.nslices * d.flops>>
    ELSE <<"ok", 0>>
Init == c = 1
Next == c <= Len(Cases) /\ LET v == IF Cases[c].kind = "slice" THEN SliceClause(Cases[c]) ELSE Clause(Cases[c]) IN PrintT(<<"V", c, v[1], v[2]>>) /\ c' = c + 1
=============================================================================
