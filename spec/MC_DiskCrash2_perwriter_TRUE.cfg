SPECIFICATION Spec
CONSTANTS
  Writers <- W2
  TmpOf <- PerWriter
  PLen = 3
  HasOld = TRUE
  Reader = "strict"
INVARIANT NeverPoisoned
INVARIANT FinalAlwaysComplete
INVARIANT OldNeverLost
CHECK_DEADLOCK FALSE
